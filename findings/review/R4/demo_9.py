"""e824295 (related path, not fixed): the ABSENT marker is still handed to user
code through the events of an overriding probe / rewriter on a declared-only
variable.

'x: int' goes through interact with ABSENT as the tentative value; intercept
handlers (OverridableProbe pipelines, koverride setters, Overlay.rewriting
functions) receive that marker as the value of x.  The fix stopped ABSENT from
being *stored*; it is still delivered in events.
"""
import sys

from ptera import probing


def f(a):
    x: int
    return a + x


events = []
kw_seen = []
with probing("f > x", overridable=True) as p:
    p.subscribe(events.append)
    p.override(lambda d: 5)
    r1 = f(1)
with probing("f(a) > x", overridable=True) as p:
    p.koverride(lambda a, x: (kw_seen.append(x), 7)[1])
    r2 = f(1)

problems = []
if (r1, r2) != (6, 8):
    problems.append(f"wrong results {(r1, r2)}")
bad = [e for e in events if repr(e.get("x")) == "ABSENT"] + [
    v for v in kw_seen if repr(v) == "ABSENT"
]
if bad:
    problems.append(
        f"ptera's ABSENT marker was delivered to user code: events={events},"
        f" koverride saw x={kw_seen}"
    )
if problems:
    print("FAIL: " + "; ".join(problems))
    sys.exit(1)
print("PASS")
