"""447c057: two object-bound methods in one call path can never match.

Each 'obj.meth' adds a receiver constraint captured under the name of the
receiver parameter ('self').  In 'a.run > b.step > x' both constraints use the
capture key 'self': the captures of the matched activations are merged into one
dict (outer activations win), and check_captures applies *both* identity
predicates to the same captured value, so the selector fires only if a is b.
The identity fix kept the shared capture key (same result with == before it).
"""
import sys

from ptera import probing


class Worker:
    def __init__(self, name):
        self.name = name

    def step(self, n):
        x = n * 2
        return x


class Driver:
    def __init__(self, worker):
        self.worker = worker

    def run(self, n):
        total = self.worker.step(n) + 1
        return total


w1, w2 = Worker("w1"), Worker("w2")
d1, d2 = Driver(w1), Driver(w2)

problems = []
with probing("d1.run > w1.step > x") as p:
    xs = p["x"].accum()
    d1.run(1)  # d1.run -> w1.step : must fire (x = 2)
    d2.run(5)  # other driver, other worker: must not
    w1.step(7)  # not under d1.run: must not
if xs != [2]:
    problems.append(f"'d1.run > w1.step > x' delivered {xs}, expected [2]")

# Control: through the classes the same path fires
with probing("Driver.run > Worker.step > x") as p:
    xs = p["x"].accum()
    d1.run(1)
if xs != [2]:
    problems.append(f"control selector delivered {xs}")

if problems:
    print("FAIL: " + "; ".join(problems))
    sys.exit(1)
print("PASS")
