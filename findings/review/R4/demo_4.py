"""f842ad6: an undefined global that is never used still fails -- when it is
inside the capture set.

The fix only guards the entry pre-fetch of names that no selector names.  With
a wildcard probe (f > $x), a probe that mentions the global as context
(f(debug_hook) > y), or @tooled, the pre-fetch still goes through interact with
ABSENT and the call dies at entry with PteraNameError although the name is on a
path that is not taken (Python: no error; property: 'one that is never used
produces no error', and instrumentation that overrides nothing is transparent).
"""
import sys

from ptera import probing, tooled


def f(flag):
    y = 1
    if flag:
        return debug_hook(y)  # noqa: F821 -- never defined
    return y


problems = []
assert f(0) == 1

for sel in ["f > $x", "f(debug_hook) > y"]:
    try:
        with probing(sel) as p:
            p.subscribe(lambda d: None)
            got = f(0)
        if got != 1:
            problems.append(f"{sel}: returned {got!r}")
    except Exception as exc:
        problems.append(f"probing({sel!r}): f(0) raised {type(exc).__name__}")

try:
    got = tooled(f)(0)
    if got != 1:
        problems.append(f"tooled: returned {got!r}")
except Exception as exc:
    problems.append(f"tooled(f)(0) raised {type(exc).__name__}")

if problems:
    print("FAIL: " + "; ".join(problems))
    sys.exit(1)
print("PASS")
