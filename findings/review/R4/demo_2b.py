"""(reduced from demo_2.py: the kind of error is checked, not what info() still knows)
5910367: PteraNameError still fails when it is *created* after the probe ended.

The fix records the variable's info entry in PteraNameError.__init__, but the
lookup function.__ptera_info__[varname] can itself happen after the function
lost its instrumentation table: a generator started under a probe and resumed
after the with-block (or a call during which the probe is deactivated) reaches
its declaration 'x: int' later.  The call then dies with
TypeError: 'NoneType' object is not subscriptable instead of a name error
identifying the variable and the function.
"""
import sys

from ptera import PteraNameError, probing


def gen():
    yield 1
    x: int
    yield x


def h(probe):
    y = 1
    probe.deactivate()
    x: int
    return x + y


problems = []

with probing("gen > #yield"):
    g = gen()
    next(g)
try:
    next(g)
    problems.append("generator: no error at the declaration")
except PteraNameError as exc:
    if exc.varname != "x":
        problems.append("generator: wrong PteraNameError contents")
except Exception as exc:
    problems.append(f"generator resumed after the probe: {type(exc).__name__}: {exc}")

p = probing("h > y")
p.activate()
try:
    h(p)
    problems.append("h: no error at the declaration")
except PteraNameError as exc:
    if exc.varname != "x":
        problems.append("h: wrong PteraNameError contents")
except Exception as exc:
    problems.append(f"probe deactivated during the call: {type(exc).__name__}: {exc}")

if problems:
    print("FAIL: expected PteraNameError for 'x'; got " + "; ".join(problems))
    sys.exit(1)
print("PASS")
