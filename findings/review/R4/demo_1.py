"""0f26a75: Probe._exit marks the probe as torn down *before* tearing it down.

If the teardown fails part-way (here: deactivate() is first attempted from an
asyncio task, i.e. from a copy of the context in which the probe was activated,
so resetting the handler collection raises ValueError), the probe is left fully
installed -- and since _live is already False, no later deactivate() (not even
from the right context, nor the interpreter-exit hook) ever uninstalls it.
At the parent commit the second deactivate() cleaned everything up.
"""
import asyncio
import sys

from ptera import global_probe, probing


def f(x):
    y = x + 1
    return y


original_code = f.__code__

p = global_probe("f > y")
p["y"].subscribe(lambda v: None)
f(1)


async def main():
    try:
        p.deactivate()
    except Exception as exc:  # ValueError: token created in a different Context
        return exc


first_error = asyncio.run(main())

# Retry from the context in which the probe was activated
try:
    p.deactivate()
except Exception as exc:
    print("FAIL: second deactivate() raised", repr(exc))
    sys.exit(1)

problems = []
if f.__code__ is not original_code:
    problems.append(
        "f still runs instrumented code after deactivate() returned normally"
    )

# Another probe comes and goes: f must be back on its original code afterwards
with probing("f > y"):
    f(2)
if f.__code__ is not original_code:
    problems.append("f never returns to its original code any more")

if problems:
    print(
        "FAIL: " + "; ".join(problems)
        + " (first deactivate(), in the task, raised %r)" % (first_error,)
    )
    sys.exit(1)
print("PASS")
