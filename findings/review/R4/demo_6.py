"""76adff9 (and 0f26a75): the stream is completed while the probe is still installed.

Probe.__exit__ completes the observers one by one and only then uninstalls the
probe.  A reduction's result callback that calls the probed function therefore
generates events that are pushed to the observers that have not been completed
yet: reductions of one and the same probe are computed from different sets of
events, and events caused after deactivation began reach the pipeline.
(The order was inherited from giving's SourceProxy; the fix rewrote this loop and
kept it -- uninstalling first, then completing, would close the window.)
"""
import sys

from ptera import probing


def f(x):
    y = x + 1
    return y


log = []
results = {}


def report(v):
    results["max"] = v
    f(100)  # e.g. a final sanity run / logging helper using f


with probing("f > y") as p:
    p["y"].max().subscribe(report)
    p["y"].count().subscribe(lambda n: results.__setitem__("count", n))
    p["y"].subscribe(log.append)
    f(1)
    f(2)

# Two bindings of y happened while the with-block was running
problems = []
if results.get("count") != 2:
    problems.append(f"count() published {results.get('count')} instead of 2")
if log != [2, 3]:
    problems.append(f"raw stream got {log} instead of [2, 3]")
if results.get("max") != 3:
    problems.append(f"max() published {results.get('max')}")
if problems:
    print("FAIL: " + "; ".join(problems) + f" (max() published {results.get('max')})")
    sys.exit(1)
print("PASS")
