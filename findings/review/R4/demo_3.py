"""e824295: a bare annotation on an attribute or an item crashes any probed call.

'self.n: int' / 'box[k]: int' declare no variable: Python evaluates the target
object (and index) and stores nothing.  make_interaction treats them like the
declaration of a variable; since e824295 they are *forced* through interact
with the ABSENT marker, whatever the probe's captures are, and interact then
builds PteraNameError('self.n', fn), whose constructor does
fn.__ptera_info__['self.n'] -> KeyError.  So a probe on an unrelated variable
makes the method raise KeyError.  (Before the fix the same probe let the call
return normally, with events, but silently stored ABSENT in self.n.)
"""
import sys

from ptera import probing


class A:
    def m(self, v):
        self.n: int
        w = v + 1
        return w


def d(k, v):
    box = {}
    box[k]: int
    w = v + 1
    return w, box


problems = []

expected = A().m(1)
a = A()
try:
    with probing("A.m > w") as p:
        ws = p["w"].accum()
        got = a.m(1)
    if got != expected or ws != [2]:
        problems.append(f"A.m: returned {got!r}, events {ws!r}")
    if vars(a):
        problems.append(f"A.m: instance polluted with {vars(a)!r}")
except Exception as exc:
    problems.append(f"A.m under probing('A.m > w'): {type(exc).__name__}: {exc}")

expected = d("a", 1)
try:
    with probing("d > w") as p:
        ws = p["w"].accum()
        got = d("a", 1)
    if got != expected or ws != [2]:
        problems.append(f"d: returned {got!r} instead of {expected!r}")
except Exception as exc:
    problems.append(f"d under probing('d > w'): {type(exc).__name__}: {exc}")

if problems:
    print("FAIL: " + "; ".join(problems))
    sys.exit(1)
print("PASS")
