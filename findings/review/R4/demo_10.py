"""0292be5: 'f > o.n' still misses most ways of storing into the attribute.

The fix makes should_instrument() accept the variable of a dotted capture, but
only plain / tuple / chained / annotated assignments build an interaction with
an attribute Key.  'o.n += 1', 'for o.n in ...' and 'with ... as o.n' store
into the attribute without any event (also on @tooled functions), so the
stream of 'f > o.n' is not the history of o.n and an override cannot reach
these stores.
"""
import sys
from contextlib import contextmanager

from ptera import probing


class Box:
    pass


@contextmanager
def cm(v):
    yield v


history = []


class Recorder(Box):
    def __setattr__(self, name, value):
        history.append(value)
        super().__setattr__(name, value)


def f(o):
    o.n = 1
    o.n, y = 2, 3
    o.n = z = 4
    o.n += 1
    for o.n in [6, 7]:
        pass
    with cm(8) as o.n:
        pass
    o.n: int = 9
    return o.n


with probing("f > o.n") as p:
    seen = p["o.n"].accum()
    f(Recorder())

if seen != history:
    print(f"FAIL: o.n was stored as {history} but 'f > o.n' delivered {seen}")
    sys.exit(1)
print("PASS")
