"""447c057: every activation of an object-bound probe compiles a new variant
and leaves a new global behind.

The receiver constraint is now MatchFunction(lambda ...): a fresh, identity-
hashed object for every select(), so the interned Element / Call are new for
every probing('obj.meth > v').  The per-capture-set cache of instrumented
variants (keyed by the capture Elements) never hits: each activation re-parses
and recompiles the method, adds an entry to the function's variant table and a
'_ptera__N' entry to the module globals, none of which is ever released.
At the parent commit (receiver stored by value) the variant was reused:
1 global in total, like a class-level selector.
"""
import sys

from ptera import probing


class C:
    def meth(self, v):
        w = v * 2
        return w


c1 = C()


def ptera_globals():
    return {k for k in globals() if isinstance(k, str) and k.startswith("_ptera_")}


def cycle(selector, n):
    for _ in range(n):
        with probing(selector) as p:
            ws = p["w"].accum()
            c1.meth(1)
        assert ws == [2]


cycle("C.meth > w", 3)
cycle("c1.meth > w", 3)  # warm up: whatever is cached is cached now
before = ptera_globals()
cycle("c1.meth > w", 25)
leaked = ptera_globals() - before

if leaked:
    print(
        f"FAIL: 25 activate/deactivate cycles of probing('c1.meth > w') left"
        f" {len(leaked)} new globals in the module (e.g. {sorted(leaked)[0]})"
    )
    sys.exit(1)
print("PASS")
