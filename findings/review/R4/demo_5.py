"""f842ad6: using an undefined global under a probe raises a different exception.

Names outside the capture set are now bound at entry only if they exist, which
turns the global into an unbound *local*: the use raises
UnboundLocalError("cannot access local variable 'debug_hook' where it is not
associated with a value") where the untouched function raises
NameError("name 'debug_hook' is not defined").  It is still a NameError
subclass, but not 'the same raised exception' (type, message, .name differ).
"""
import sys

from ptera import probing


def f(flag):
    y = 1
    if flag:
        return debug_hook(y)  # noqa: F821 -- never defined
    return y


problems = []

try:
    f(1)
except NameError as exc:
    plain = exc
with probing("f > y") as p:
    p.subscribe(lambda d: None)
    try:
        f(1)
        problems.append("f(1) did not raise under probing('f > y')")
    except NameError as exc:
        if type(exc) is not type(plain) or str(exc) != str(plain):
            problems.append(
                f"f(1) raises {type(exc).__name__}({str(exc)!r}) instead of"
                f" {type(plain).__name__}({str(plain)!r})"
            )

if problems:
    print("FAIL: " + "; ".join(problems))
    sys.exit(1)
print("PASS")
