"""911aeb0 regression: a `global` declaration in a class body nested in the
function: the instrumented function no longer behaves like the original
(worked on the parent e0fd03f)."""
import sys
from ptera import probing

COUNT = 1

def f():
    class A:
        global COUNT
        COUNT = COUNT + 1
    return COUNT

def k():
    class B:
        global FRESH
        FRESH = 7
    return FRESH

def run(fn):
    try:
        return fn()
    except Exception as e:
        return f"{type(e).__name__}: {e}"

want = (run(f), run(k), COUNT)
COUNT = 1
globals().pop("FRESH", None)
with probing("f > #enter"), probing("k > #enter"):
    got = (run(f), run(k), COUNT)
if got != want:
    print(f"FAIL: plain {want}, instrumented {got}")
    sys.exit(1)
print("PASS")
