"""e0fd03f: total selector: values bound during later calls of f are logged
into the record of the first call of f, which has already been delivered."""
import sys
from ptera import Overlay, tooled

def h(i):
    x = i * 10
    return x

def g():
    for i in range(4):
        yield h(i)

def f(a, box):
    if not box:
        box.append(g())
    return next(box[0])

for fn in (h, g, f):
    tooled.inplace(fn)
box = []
recs = []
snap = []
def on(d):
    recs.append(d)
    snap.append({k: list(v) for k, v in d.items()})
ov = Overlay()
ov.register("f(a) > g > h(x)", on, all=True, immediate=False)
with ov:
    f(1, box); f(2, box); f(3, box)
now = [{k: list(v) for k, v in d.items()} for d in recs]
if now != snap or any(r["a"] == [1] and r["x"] != [0] for r in now):
    print(f"FAIL: record of f(1) was {snap[0]} when delivered and is {now[0]} now; records={now}")
    sys.exit(1)
print("PASS")
