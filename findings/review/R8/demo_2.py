"""e0fd03f: the pairs kept by the resumed generator still point at the
accumulator of the *ended* call of f: context variable `a` is stale."""
import sys
from ptera import probing

def h(i):
    x = i * 10
    return x

def g():
    for i in range(4):
        yield h(i)

def f(a, box):
    if not box:
        box.append(g())
    return next(box[0])

box = []
events = []
with probing("f(a) > g > h > x") as p:
    p.subscribe(lambda d: events.append((d["a"], d["x"])))
    f(1, box); f(2, box); f(3, box)
bad = [(a, x) for a, x in events if (a, x) not in [(1, 0), (2, 10), (3, 20)]]
if bad:
    print(f"FAIL: events carry `a` of a call of f that has ended: {events}")
    sys.exit(1)
print("PASS")
