"""e0fd03f/23ad29c regression: an override conditioned on f(a=1) is applied
while the only running activation of f has a=2 (generator created under
f(a=1), advanced by a fresh call f(a=2)).  Parent 8f2b468 returned 10 there."""
import sys
from ptera import probing

def h(i):
    x = i * 10
    return x

def g():
    for i in range(4):
        yield h(i)

def f(a, box):
    if not box:
        box.append(g())
    return next(box[0])

box = []
plain = [f(1, box), f(2, box)]
box = []
events = []
with probing("f(a=1) > g > h > x", overridable=True) as p:
    p.override(lambda d: -1)
    p.subscribe(lambda d: events.append((d["a"], d["x"])))
    got = [f(1, box), f(2, box)]
# f(a=2) is the only f running at step 2: condition a=1 does not hold
if got[1] != 10 or any(x == 10 for _, x in events):
    print(f"FAIL: f(2) returned {got[1]} (expected 10), events={events}: "
          "override/event of 'f(a=1) > ...' applied while f(a=2) is the running call")
    sys.exit(1)
print("PASS")
