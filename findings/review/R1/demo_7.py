"""56e9529 (incomplete): a global probe deactivated from another thread
removes its handlers from that thread's (empty) context only; they stay
installed for good in the context of the thread that activated it.

(Uses ptera.overlay.HandlerCollection to look at the installed handlers.)"""
import sys
import threading
from ptera import global_probe
from ptera.overlay import HandlerCollection


def f(x):
    y = x + 1
    return y


p = global_probe("f > y")
f(1)
t = threading.Thread(target=p.deactivate)
t.start()
t.join()

coll = HandlerCollection.current.get()
left = coll.handler_pairs if coll else []
if not left:
    print("PASS")
else:
    print(f"FAIL: {len(left)} handler(s) of the deactivated probe still installed: {left}")
    sys.exit(1)
