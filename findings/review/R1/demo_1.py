"""468b424: a probe activated while an instrumented generator is suspended
misses the calls that the generator makes once it is resumed."""
import sys
from ptera import probing


def h(v):
    y = v
    return y


def gen():
    a = 0
    yield a
    h(1)  # runs while the probe on h is active
    yield a


with probing("gen > a"):  # only there so that gen is instrumented
    g = gen()
    next(g)  # gen is now suspended at its first yield
    with probing("h > y") as p:
        got = p.accum()
        next(g)  # gen calls h(1)
        h(2)

expected = [{"y": 1}, {"y": 2}]
if got == expected:
    print("PASS")
else:
    print(f"FAIL: active probe 'h > y' got {got}, expected {expected}")
    sys.exit(1)
