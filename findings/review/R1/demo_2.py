"""468b424: resuming a generator re-installs the handlers of an overlay whose
with-block has already ended (the generator keeps the collection it was
started with and puts it back at every resumption)."""
import sys
from ptera import Overlay, tooled


@tooled
def h(v):
    y = v
    return y


@tooled
def gen():
    a = 0
    yield a
    h(1)
    yield a


with Overlay.tapping("h > y") as results:
    g = gen()
    next(g)
# The overlay is over: nothing may be delivered to it any more
next(g)  # gen calls h(1)

if results == []:
    print("PASS")
else:
    print(f"FAIL: overlay received {results} after its with-block had ended")
    sys.exit(1)
