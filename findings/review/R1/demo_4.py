"""468b424 (incomplete): a generator started under another generator keeps
matching that ancestor after the ancestor is suspended and the generator is
resumed by someone else."""
import sys
from ptera import probing


def h(v):
    y = v
    return y


def gen():
    a = 0
    h(10)
    yield a
    h(11)
    yield a


def starter(g):
    c = 0
    next(g)  # starter > gen > h(10)
    yield c


with probing("starter > h > y") as p, probing("gen > a"):
    got = p.accum()
    g = gen()
    s = starter(g)
    next(s)
    next(g)  # starter is suspended: h(11) is not called under starter

expected = [{"y": 10}]
if got == expected:
    print("PASS")
else:
    print(f"FAIL: 'starter > h > y' got {got}, expected {expected}")
    sys.exit(1)
