"""56e9529 (incomplete): a global probe deactivated from a copy of the
activating context (contextvars.copy_context().run, i.e. what every asyncio
task / callback runs in): the current collection *is* the one the overlay
installed, so the 'properly nested' branch resets a token that belongs to
another Context, ValueError aborts the deactivation and the function stays
instrumented."""
import contextvars
import sys
from ptera import global_probe


def f(x):
    y = x + 1
    return y


orig = f.__code__
p = global_probe("f > y")
f(1)
try:
    contextvars.copy_context().run(p.deactivate)
except Exception as e:
    print(f"FAIL: deactivate raised {type(e).__name__}; "
          f"f runs its original code again: {f.__code__ is orig}")
    sys.exit(1)
if f.__code__ is not orig:
    print("FAIL: f still instrumented after deactivation")
    sys.exit(1)
print("PASS")
