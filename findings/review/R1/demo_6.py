"""5958c50: delegating each yield to a helper generator changes what
throw(StopIteration) does: it is raised inside the helper, where PEP 479 turns
it into RuntimeError, so the generator's own handler never sees it."""
import sys
from ptera import probing


def gen():
    a = 0
    try:
        yield 1
    except StopIteration:
        a = 5
        yield 99


def drive():
    g = gen()
    next(g)
    try:
        return ("value", g.throw(StopIteration))
    except BaseException as e:
        return ("raised", type(e).__name__, str(e))


plain = drive()
with probing("gen > a"):
    probed = drive()

if plain == probed:
    print("PASS")
else:
    print(f"FAIL: untouched gen gives {plain}, instrumented gen gives {probed}")
    sys.exit(1)
