"""468b424: a generator resumed under another function runs with the call-path
context it was started with, not the one of whoever resumes it: selectors of
the resumer's enclosing functions stop matching."""
import sys
from ptera import probing


def h(v):
    y = v
    return y


def gen():
    a = 0
    yield a
    h(1)
    yield a


def f(g):
    b = 0
    h(0)
    next(g)  # gen runs h(1): stack is f > gen > h
    return b


with probing("f > h > y") as p, probing("gen > a"):
    got = p.accum()
    g = gen()
    next(g)  # started outside f
    f(g)

expected = [{"y": 0}, {"y": 1}]
if got == expected:
    print("PASS")
else:
    print(f"FAIL: 'f > h > y' got {got}, expected {expected}")
    sys.exit(1)
