"""468b424 (incomplete): only plain `yield` is treated as a suspension; a
generator suspended in `yield from` still leaks its context to its caller."""
import sys
from ptera import probing


def h():
    y = 1
    return y


def gen():
    a = 0
    yield from [1, 2]


def caller():
    for _ in gen():
        h()  # called by caller, not under gen


with probing("gen > h > y") as p:
    got = p.accum()
    caller()

if got == []:
    print("PASS")
else:
    print(f"FAIL: 'gen > h > y' fired for the caller's own calls: {got}")
    sys.exit(1)
