"""3b96448: with the `global` declaration dropped, a read-only global becomes a
local of the instrumented function, so an inner function / lambda that reads it
closes over the snapshot taken at entry -- for good, also after the call (and
the probe) are over."""
import sys
from ptera import probing

LEVEL = 1


def make_reader(tag):
    global LEVEL
    label = f"{tag}:{LEVEL}"
    return lambda: (label, LEVEL)


def main():
    global LEVEL
    LEVEL = 1
    plain = make_reader("a")
    with probing("make_reader > label") as p:   # overrides nothing
        p.subscribe(lambda d: None)
        probed = make_reader("a")
    LEVEL = 2   # rebound after both calls have returned
    want, got = plain(), probed()
    if got != want:
        print(f"FAIL: reader made by the untouched function gives {want}, "
              f"the one made under a probe gives {got}")
        return 1
    print("PASS")
    return 0


sys.exit(main())
