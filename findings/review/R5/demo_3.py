"""3b96448: a function that declares `global CACHE`, lets a callee create it and
then reads it now dies with UnboundLocalError under any probe (the declaration
is dropped, CACHE becomes a local that is only bound if it exists at entry).
Before the commit the declaration was kept and the read went to the module."""
import sys
from ptera import probing

def _init():
    global CACHE
    CACHE = {"ready": True}


def get_cache():
    global CACHE
    if "CACHE" not in globals():
        _init()
    status = CACHE["ready"]
    return status


def attempt(fn):
    globals().pop("CACHE", None)
    try:
        return ("ret", fn())
    except BaseException as e:
        return ("exc", type(e).__name__, str(e))


def probed():
    with probing("get_cache > status") as p:    # overrides nothing
        p.subscribe(lambda d: None)
        return get_cache()


def main():
    want = attempt(get_cache)
    got = attempt(probed)
    if got != want:
        print(f"FAIL: untouched {want}, probed {got}")
        return 1
    print("PASS")
    return 0


sys.exit(main())
