"""bdd0857 / e851bb1 (incomplete, exotic): expressions that the enclosing
function evaluates but the transformer still skips.
 (a) the index of a bare item annotation  o[(k := ...)]: int  -- k is bound by
     the function, no event;
 (b) annotations of an inner def's parameters -- a name bound there is taken
     for an undefined global and the probed call dies with PteraNameError."""
import sys
from ptera import probing


def f(o):
    o[(k := 1)]: int
    return k


def g():
    def h(a: (t := int) = 1):
        return a
    return h(), t


def run(fn, sel, *args):
    out = []
    try:
        with probing(sel) as p:
            p.subscribe(out.append)
            r = fn(*args)
        return r, out
    except BaseException as e:
        return f"{type(e).__name__}", out


def main():
    problems = []
    got = run(f, "f > k", {})
    if got != (1, [{"k": 1}]):
        problems.append(f"(a) want (1, [{{'k': 1}}]), got {got}")
    got = run(g, "g > t")
    if got != ((1, int), [{"t": int}]):
        problems.append(f"(b) want ((1, int), [{{'t': int}}]), got {got}")
    if problems:
        print("FAIL: " + "; ".join(problems))
        return 1
    print("PASS")
    return 0


sys.exit(main())
