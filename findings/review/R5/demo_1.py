"""3b96448: `global G` is dropped when G is bound only by a form the name
collector does not see (a match-statement capture): the capture then binds a
local and the module global is never updated while a probe is active."""
import sys
from ptera import probing

G = 0


def f(v):
    global G
    match v:
        case [G, _]:
            pass
    return G


def main():
    global G
    G = 0
    plain = (f([5, 1]), G)          # (5, 5)
    G = 0
    with probing("f > v") as p:     # overrides nothing
        p.subscribe(lambda d: None)
        r = f([5, 1])
    probed = (r, G)
    if probed != plain:
        print(f"FAIL: untouched gives (ret, G)={plain}, probed gives {probed}")
        return 1
    print("PASS")
    return 0


sys.exit(main())
