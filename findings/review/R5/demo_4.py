"""c3d53db (incomplete): a PteraNameError raised by a call that outlives its
probe (a suspended generator) can now be built, but it carries no annotation
and no provenance: info() is {}."""
import sys
from ptera import probing, PteraNameError


def gen():
    yield 1
    limit: int      # declared only: must be supplied from outside
    yield limit


def error_of(resume_inside):
    with probing("gen > #yield") as p:
        p.subscribe(lambda d: None)
        g = gen()
        next(g)
        if resume_inside:
            try:
                next(g)
            except PteraNameError as e:
                return e
    try:
        next(g)
    except PteraNameError as e:
        return e


def main():
    inside = error_of(True).info()
    after = error_of(False).info()
    if after.get("annotation") is not int or after.get("provenance") != "body":
        print(f"FAIL: info() while the probe is active has annotation="
              f"{inside.get('annotation')!r}, provenance={inside.get('provenance')!r};"
              f" after the probe ended info() == {after!r}")
        return 1
    print("PASS")
    return 0


sys.exit(main())
