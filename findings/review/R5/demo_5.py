"""741173b (incomplete): tooled copies of functions defined inside functions, or
wrapped in a property, now get a reference string, but selecting through it is
refused as ambiguous (the orphaned original and the copy both answer to it and
the path does not lead to either by getattr)."""
import sys
from ptera import probing, refstring, tooled


@tooled
def first(x):      # (the very first tooled function of a process is special-cased
    return x       # by accident of codefind's lazy start-up: keep it out of the way)


def outer():
    @tooled
    def inner(x):
        y = x + 1
        return y
    return inner


class A:
    @property
    @tooled
    def prop(self):
        p = 5
        return p


def events(fn, var, call):
    out = []
    ref = refstring(fn)
    with probing(f"{ref} > {var}") as p:
        p.subscribe(out.append)
        call()
    return out


def main():
    inner = outer()
    problems = []
    for label, fn, var, call, want in [
        ("nested @tooled", inner, "y", lambda: inner(1), [{"y": 2}]),
        ("@property @tooled", A.prop.fget, "p", lambda: A().prop, [{"p": 5}]),
    ]:
        try:
            got = events(fn, var, call)
        except BaseException as e:
            got = f"{type(e).__name__}: {e}"
        if got != want:
            problems.append(f"{label}: {got}")
    if problems:
        print("FAIL: " + "; ".join(problems))
        return 1
    print("PASS")
    return 0


sys.exit(main())
