"""(reduced from demo_6.py: only the permanent refusals are flagged)
58916a9 (tooling lock) + be94eb2 / 654daa2 (inplace, base_is_tooled):
tooled.inplace() is not covered by the tooling lock, and a function left with
'__ptera_info__ = None' but no '__ptera_stack__' is taken for 'already tooled'.

Thread T activates/deactivates its own probe on f.  The main thread waits for
a moment when no probe is active and calls tooled.inplace(f).  inplace() first
deletes the dormant __ptera_stack__ and only later installs the tooled code,
all of it outside _tooling_lock.  If T's next activation falls in between, T
builds a new stack whose base is the *untooled* code but whose
base_is_tooled flag is True (hasattr(fn, '__ptera_info__'), the attribute is
there, set to None).  From then on, for good and after all threads are done:
  - T's activations are refused: '<function f> is not properly tooled'
    (the symptom 58916a9 set out to remove);
  - every later probe on f re-installs the untooled code, so the function
    that was explicitly tooled is not tooled: overlays have no effect;
  - every later probe on f is refused as well.
"""
import sys
import threading

from ptera import Overlay, probing, tooled

sys.setswitchinterval(1e-6)


def make():
    def f(x):
        y = x + 1
        z = y * 2
        return z

    return f


def trial():
    f = make()
    with probing("f > y"):
        pass  # f has been probed before
    stop = threading.Event()
    refused = []

    def prober():
        while not stop.is_set():
            try:
                with probing("f > y") as p:
                    log = p.accum()
                    f(1)
                if log != [{"y": 2}]:
                    refused.append(f"prober thread got {log}")
            except Exception as exc:
                refused.append(f"{type(exc).__name__}: {str(exc)[-40:]}")

    t = threading.Thread(target=prober)
    t.start()
    try:
        while f.__ptera_info__ is not None:
            pass  # wait until no probe is active on f
        tooled.inplace(f)
    finally:
        stop.set()
        t.join()

    # Everything below is sequential: all threads have finished.
    problems = []
    if refused:
        problems.append(
            f"{len(refused)} activation(s) in the other thread failed: {refused[0]}"
        )
    with Overlay.tweaking({"f > z": 7}):
        r = f(1)
    # (r != 7 when tooled.inplace found a probe active and did nothing: a different matter,
    # left out of this reduced demo)
    try:
        with probing("f > y") as p:
            log = p.accum()
            f(1)
        if log != [{"y": 2}]:
            problems.append(f"later probe got {log}")
    except Exception as exc:
        problems.append(f"later probe refused: {type(exc).__name__}: {str(exc)[-40:]}")
    with Overlay.tweaking({"f > z": 7}):
        r = f(1)
    return problems


def main():
    for n in range(60):
        problems = trial()
        if problems:
            print(f"FAIL: (trial {n}) " + "; ".join(problems))
            sys.exit(1)
    print("PASS")


if __name__ == "__main__":
    main()
