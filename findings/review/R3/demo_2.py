"""be94eb2 (is_tooled / tooled.inplace): tooled() and tooled.inplace() still
do nothing -- silently -- on a function that is *currently* probed.

While a probe is active, fn.__ptera_info__ is the info of the probe's variant,
so is_tooled(fn) is True and tooled.inplace(fn) returns fn untouched.  When the
probe ends, the untooled code is put back: the function the user explicitly
tooled is not tooled, and overlays on it never fire (same symptom as the one
fixed for a function that *had been* probed).
"""
import sys

from ptera import Overlay, probing, tooled


def f(x):
    y = x + 1
    z = y * 2
    return z


def g(x):
    y = x + 1
    z = y * 2
    return z


def main():
    problems = []

    # reference behaviour: tool, then overlay
    tooled.inplace(g)
    with Overlay.tweaking({"g > y": 100}):
        ref = g(1)
    if ref != 200:
        problems.append(f"sanity: overlay on tooled g returned {ref}")

    with probing("f > z") as p:
        log = p.accum()
        tooled.inplace(f)  # e.g. done by a library set-up function
        f(1)
    if log != [{"z": 4}]:
        problems.append(f"probe on f saw {log}")

    with Overlay.tweaking({"f > y": 100}):
        got = f(1)
    if got != 200:
        problems.append(
            "f was tooled with tooled.inplace() while a probe was active; "
            f"after the probe ended, Overlay.tweaking({{'f > y': 100}}) "
            f"had no effect: f(1) returned {got}, expected 200"
        )

    if problems:
        print("FAIL:", "; ".join(problems))
        sys.exit(1)
    print("PASS")


if __name__ == "__main__":
    main()
