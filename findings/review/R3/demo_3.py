"""58916a9 (tooling lock): resolving an absolute reference is not serialised
with the code swap done by another thread's probe activation/deactivation.

Thread A-threads activate/deactivate their own probes on f (by name) and call
it.  The main thread, concurrently, creates its own probe on f through f's
absolute reference.  Expected: the reference always resolves to f and the
probe sees exactly the main thread's own call.  Actual: sooner or later
`Exception: Reference `//f` cannot be resolved.` (the registry already points
to the new code while f.__code__ is still the old one, or vice versa).
"""
import sys
import threading

from ptera import probing, refstring


def f(x):
    y = x + 1
    z = y * 2
    return z


sys.setswitchinterval(1e-6)
stop = threading.Event()
side_errors = []


def toggler(i):
    var = "yz"[i % 2]
    try:
        while not stop.is_set():
            with probing(f"f > {var}") as p:
                log = p.accum()
                f(i)
            exp = [{var: i + 1 if var == "y" else (i + 1) * 2}]
            if log != exp:
                side_errors.append(f"toggler {i}: got {log}, expected {exp}")
                return
    except BaseException as exc:  # noqa
        side_errors.append(f"toggler {i}: {type(exc).__name__}: {exc}")


def main():
    with probing("f > y"):
        pass  # make sure f is known to the registry
    ref = refstring(f)
    threads = [threading.Thread(target=toggler, args=(i,)) for i in range(4)]
    for t in threads:
        t.start()
    problem = None
    try:
        for n in range(3000):
            try:
                with probing(f"{ref} > z") as p:
                    log = p.accum()
                    f(100)
            except Exception as exc:
                problem = (
                    f"iteration {n}: selecting {ref} while other threads "
                    f"probe f raised {type(exc).__name__}: {exc}"
                )
                break
            if log != [{"z": 202}]:
                problem = f"iteration {n}: got {log}, expected [{{'z': 202}}]"
                break
            if side_errors:
                break
    finally:
        stop.set()
        for t in threads:
            t.join()
    if problem is None and side_errors:
        problem = side_errors[0]
    if problem:
        print("FAIL:", problem)
        sys.exit(1)
    print("PASS")


if __name__ == "__main__":
    main()
