"""cd87ef6 / 755b237 (reference resolution, __ptera_discard__): a function
decorated with @tooled resolves, by reference, to the orphaned original.

tooled(fn) returns a *new* function; the registry path of 'f' keeps pointing
at the original code, whose only holder is the original function object that
ptera itself keeps alive (info[...]['location']).  That object is not marked
__ptera_discard__, and since 755b237 the new function's code is registered
under '<ptera:file>' only, so '/module/f' silently selects a function nobody
can call: no events, whereas selecting f by name works.

(ptera is used once before f is defined so that codefind is already loaded,
as it is in any process where f's module is imported after ptera was used;
otherwise codefind's start-up heap scan may or may not pick the right one.)
"""
import sys

from ptera import probing, refstring, tooled


def warmup(x):
    w = x
    return w


with probing("warmup > w"):
    warmup(0)


@tooled
def f(x):
    y = x + 1
    return y


def main():
    with probing("f > y") as p:
        byname = p.accum()
        f(1)

    ref = refstring(f)
    try:
        with probing(f"{ref} > y") as p:
            byref = p.accum()
            f(1)
    except Exception as exc:
        byref = f"{type(exc).__name__}: {exc}"

    if byname != [{"y": 2}] or byref != byname:
        print(
            f"FAIL: @tooled f: by name {byname}, "
            f"through refstring(f)={ref!r}: {byref}"
        )
        sys.exit(1)
    print("PASS")


if __name__ == "__main__":
    main()
