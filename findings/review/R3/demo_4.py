"""755b237 (codefind registry): functions *defined by* an instrumented variant
are not reachable through their absolute reference.

A variant of `outer` contains new code objects for the functions nested in
`outer`.  Their paths are registered only under the private file name
'<ptera:file>' (before the commit: under the real one, and then immediately
overwritten by the re-registration of the original code), and
update_cache_entry() only moves the paths of `outer` itself.  So a closure
created by outer() while a probe is active on outer (or at any time, if outer
was tooled with tooled.inplace) has a refstring, but selecting through that
refstring fails with 'Reference ... cannot be resolved', although selecting
the same function by name works.
"""
import sys

from ptera import probing, refstring


def outer(k):
    def inner(x):
        y = x + k
        return y

    return inner


def main():
    with probing("outer > k") as p:
        ks = p.accum()
        inn = outer(5)  # created while outer runs its instrumented variant
    assert ks == [{"k": 5}], ks

    ref = refstring(inn)  # '//outer/inner'
    try:
        with probing(f"{ref} > y") as p:
            byref = p.accum()
            inn(1)
    except Exception as exc:
        byref = f"{type(exc).__name__}: {exc}"

    with probing("inn > y") as p:
        byname = p.accum()
        inn(1)

    if byref != byname or byname != [{"y": 6}]:
        print(
            f"FAIL: selecting inn by name gave {byname}, "
            f"selecting it through refstring(inn)={ref!r} gave {byref}"
        )
        sys.exit(1)
    print("PASS")


if __name__ == "__main__":
    main()
