"""755b237 (codefind registry): the fix is bypassed when ptera's first
instrumentation of the process is what loads codefind.

transform() imports codefind only *after* it has exec()'d the temporary module.
codefind's start-up scan (collect_all) then finds the freshly built variant on
the heap: a function whose __qualname__ is the bare name ('meth') and whose
code carries the real file name.  It is registered as the top-level 'meth' of
this file, and when the probe ends that path is pointed at the method's code.
From then on the absolute reference of the top-level function `meth` selects
the method K.meth (the very symptom the commit describes).
"""
import sys

from ptera import probing, refstring


def meth(x):
    y = x + 1
    return y


class K:
    def meth(self, x):
        y = x * 10
        return y


def main():
    # first instrumentation in this process: a method
    with probing("K.meth > y") as p:
        first = p.accum()
        K().meth(1)
    if first != [{"y": 10}]:
        print("FAIL: unexpected events for K.meth:", first)
        sys.exit(1)

    ref = refstring(meth)  # '//meth' when run as a script
    with probing(f"{ref} > y") as p:
        log = p.accum()
        meth(1)
        K().meth(1)
    with probing("meth > y") as p:
        byname = p.accum()
        meth(1)
        K().meth(1)

    if log != byname or log != [{"y": 2}]:
        print(
            f"FAIL: selecting top-level meth through {ref} gave {log}; "
            f"selecting it by name gave {byname} (expected [{{'y': 2}}] for both)"
        )
        sys.exit(1)
    print("PASS")


if __name__ == "__main__":
    main()
