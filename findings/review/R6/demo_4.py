"""Making a tooled copy of a function must not break the function's own
reference string. It does whenever the function is not what its qualified
name is bound to in the module: a function defined inside another one, or a
function whose module-level name holds a decorator's wrapper."""
import functools
import sys

from ptera import probing, refstring, tooled


def make():
    def inner(v):
        x = v + 1
        return x

    return inner


def logged(fn):
    @functools.wraps(fn)
    def wrapper(*args):
        return fn(*args)

    return wrapper


@logged
def deco(v):
    x = v * 2
    return x


def events_by_ref(ref, call):
    events = []
    with probing(f"{ref} > x") as p:
        p.subscribe(events.append)
        call()
    return events


def main():
    problems = []
    inner = make()
    for name, fn, call, want in [
        ("inner", inner, lambda: inner(1), [{"x": 2}]),
        ("deco", deco.__wrapped__, lambda: deco(1), [{"x": 2}]),
    ]:
        ref = refstring(fn)
        before = events_by_ref(ref, call)
        copy = tooled(fn)  # an independent instrumented copy
        try:
            after = events_by_ref(ref, call)
        except Exception as exc:
            after = f"{type(exc).__name__}: {exc}"
        if before != want or after != want:
            problems.append(
                f"{ref}: {before} before tooled({name}), {after!r} after"
            )
    if problems:
        print("FAIL: " + "; ".join(problems))
        sys.exit(1)
    print("PASS")


main()
