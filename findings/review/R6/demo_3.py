"""Once a generator has been advanced from inside pump(), it keeps pump's
place on the call path for good: `pump > h > x` fires (and an override on
that path is applied) for calls the generator makes when it is advanced at
top level later on, with no pump() activation executing at all."""
import sys

from ptera import probing


def h(v):
    x = v
    return x


def g():
    n = 0
    while True:
        n = n + 1
        r = h(n)
        yield r


def pump(gen):
    r = next(gen)
    return r


def main():
    events = []
    with probing("g > n") as p0:
        p0.subscribe(lambda d: None)
        with probing("pump > h > x", overridable=True) as p1:
            p1.subscribe(events.append)
            p1.override(lambda d: -d["x"])
            gen = g()
            a = next(gen)  # h(1): no pump on the stack
            b = pump(gen)  # h(2): under pump
            c = next(gen)  # h(3): no pump on the stack any more
    got = [e["x"] for e in events]
    problems = []
    if 3 in got or 1 in got:
        problems.append(
            f"pump > h > x delivered {got} (only 2 is bound under pump)"
        )
    if (a, c) != (1, 3):
        problems.append(
            f"values yielded outside pump are {(a, c)}, expected (1, 3):"
            " the override on pump > h > x was applied outside pump"
        )
    if problems:
        print("FAIL: " + "; ".join(problems))
        sys.exit(1)
    print("PASS")


main()
