"""Resolving the reference of a function while another thread makes tooled
copies of it: the set of copies hung on the function is walked under the
tooling lock, but tooled() adds to it without the lock."""
import sys
import threading

from ptera import refstring, select, tooled

sys.setswitchinterval(1e-6)


def f(v):
    x = v + 1
    return x


def main():
    ref = refstring(f)
    errors = []
    done = threading.Event()

    def copier():
        try:
            for _ in range(400):
                tooled(f)
        finally:
            done.set()

    def resolver():
        try:
            while not done.is_set():
                select(f"{ref} > x")
        except BaseException as exc:
            errors.append(exc)

    threads = [threading.Thread(target=copier), threading.Thread(target=resolver)]
    for t in threads:
        t.start()
    for t in threads:
        t.join()
    if errors:
        print(f"FAIL: resolving {ref} raised {errors[0]!r}")
        sys.exit(1)
    print("PASS")


main()
