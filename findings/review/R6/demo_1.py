"""A generator that is created in one call of pump() and advanced by later
calls of pump(): `pump > h > x` must fire once per call of h (one live pump
activation each time), not once per pump activation that ever advanced it."""
import sys

from ptera import probing

_gen = None


def h(v):
    x = v
    return x


def g():
    n = 0
    while True:
        n = n + 1
        h(n)
        yield n


def pump():
    global _gen
    if _gen is None:
        _gen = g()
    r = next(_gen)
    return r


def main():
    events = []
    with probing("pump > h > x") as p1, probing("g > n") as p2:
        p1.subscribe(events.append)
        p2.subscribe(lambda d: None)
        pump()
        pump()
        pump()
    got = [e["x"] for e in events]
    want = [1, 2, 3]
    if got != want:
        print(f"FAIL: pump > h > x delivered {got}, expected {want}")
        sys.exit(1)
    print("PASS")


main()
