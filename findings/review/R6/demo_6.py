"""A function defined inside another function and decorated with @tooled:
probing it through ptera.refstring() of the function must work."""
import sys

from ptera import probing, refstring, tooled


def outer():
    @tooled
    def inner(v):
        x = v + 1
        return x

    return inner


def main():
    inner = outer()
    ref = refstring(inner)
    events = []
    try:
        with probing(f"{ref} > x") as p:
            p.subscribe(events.append)
            inner(1)
    except Exception as exc:
        print(f"FAIL: probing {ref} raised {type(exc).__name__}: {exc}")
        sys.exit(1)
    if events != [{"x": 2}]:
        print(f"FAIL: probing {ref} delivered {events}, expected [{{'x': 2}}]")
        sys.exit(1)
    print("PASS")


main()
