"""A generator advanced once from somewhere the probe is not in force
(another thread here; `with no_overlay():` does the same) forgets for good
that it is itself on the call path: `g > h > x` stays silent for the calls
it makes afterwards in the probe's own thread, where g is a live ancestor."""
import sys
import threading

from ptera import probing


def h(v):
    x = v
    return x


def g():
    for n in range(1, 5):
        h(n)
        yield n


def main():
    events = []
    with probing("g > h > x") as p:
        p.subscribe(events.append)
        gen = g()
        next(gen)  # h(1), this thread
        t = threading.Thread(target=next, args=(gen,))  # h(2), elsewhere
        t.start()
        t.join()
        next(gen)  # h(3), this thread again
        next(gen)  # h(4)
    got = [e["x"] for e in events]
    # h(2) is called in another thread: with or without it, 1, 3 and 4
    # were called in this thread, under g, while the probe was active
    if [v for v in got if v != 2] != [1, 3, 4]:
        print(f"FAIL: g > h > x delivered {got}; h(3) and h(4) are missing")
        sys.exit(1)
    print("PASS")


main()
