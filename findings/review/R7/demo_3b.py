"""c7da0f8: the `global` declarations are collected with ast.walk over the whole
function, nested scopes included.  A `global H` that belongs to an inner class
body or an inner function makes the *outer* function's ordinary read of H
unprobeable: the selector is accepted, no event is ever delivered, the capture
disappears from other events and an override is silently ignored."""
import sys
from ptera import probing

H = 7


def with_class():
    class K:
        global H  # concerns the class body only
        z = 1

    r = H + 1
    return r


def with_inner():
    def show():
        global H  # concerns show only
        return H

    r = H + 1
    return r


def plain():
    r = H + 1
    return r


problems = []
for fn in (plain, with_inner):  # (reduced: a class body runs as part of the call -- see R8 demo_4)
    name = fn.__name__
    with probing(f"{name} > H") as p:
        ev = p.accum()
        fn()
    if ev != [{"H": 7}]:
        problems.append(f"{name} > H delivered {ev}")
    with probing(f"{name}(H) > r") as p:
        ev = p.accum()
        fn()
    if ev != [{"H": 7, "r": 8}]:
        problems.append(f"{name}(H) > r delivered {ev}")
    with probing(f"{name} > H", overridable=True) as p:
        p.override(100)
        rv = fn()
    if rv != 101 or H != 7:
        problems.append(f"{name} with H overridden to 100 returned {rv} (module H={H})")

if problems:
    print("FAIL: " + "; ".join(problems))
    sys.exit(1)
print("PASS")
