"""ee71e64: same cause, override flavour, no outside driver involved: a generator
(pipeline) pulls from another generator (source) through a helper (pull) that it
calls afresh for every item.  An override on `pull > source > load > item` is
applied to the first item only; for the others the chain pull > source > load is
live just the same, but the override is silently skipped."""
import sys
from ptera import probing


def load(i):
    item = i + 1
    return item


def source(n):
    for i in range(n):
        v = load(i)
        yield v


def pull(src):
    nxt = next(src, None)
    return nxt


def pipeline(n):
    src = source(n)
    while True:
        c = pull(src)
        if c is None:
            break
        yield c


with probing("pull > source > load > item", overridable=True) as p:
    p.override(lambda data: -data["item"])
    seen = p["item"].accum()
    result = list(pipeline(3))

expected = [-1, -2, -3]
if result != expected:
    print(f"FAIL: overridden pipeline returned {result}, expected {expected}; events {seen}")
    sys.exit(1)
print("PASS")
