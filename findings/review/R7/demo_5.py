"""Incomplete repair (a89bad3 / ee71e64 family, not a regression): re-basing only
covers the calls a resumed generator goes on to make.  The generator's own
variables stay registered with the accumulators of the overlay it was entered
under, so an overlay whose with-block has ended keeps receiving events."""
import sys
from ptera import tooled
from ptera.overlay import Overlay


@tooled
def leaf(n):
    y = n + 1
    return y


@tooled
def gen(n):
    for i in range(n):
        a = leaf(i)
        yield a


own, nested = [], []
ol = Overlay()
ol.register("gen > a", own.append)
ol.register("gen > leaf > y", nested.append)
with ol:
    g = gen(3)
    next(g)
# the overlay is over
next(g)
next(g)

if nested != [{"y": 1}]:
    print(f"FAIL: ended overlay got nested events {nested}")
    sys.exit(1)
if own != [{"a": 1}]:
    print(f"FAIL: overlay that has ended still received the generator's own variable: {own}")
    sys.exit(1)
print("PASS")
