"""8f2b468: when the module path does not lead to a function (a property, a
wrapping decorator, a function defined in another function), the reference of a
@tooled function now silently resolves to the orphaned original that nothing
calls, instead of the tooled copy in use: the probe is accepted and stays
silent.  (Before this commit the same references raised "ambiguous".)"""
import functools
import sys
from ptera import probing, refstring, tooled


def deco(fn):
    @functools.wraps(fn)
    def wrapper(*a, **k):
        return fn(*a, **k)

    return wrapper


class A:
    @property
    @tooled
    def val(self):
        x = 10
        return x

    @deco
    @tooled
    def wrapped(self):
        x = 20
        return x


def outer():
    @tooled
    def inner(n):
        x = n + 1
        return x

    return inner


a = A()
inner = outer()
cases = [
    ("property", A.val.fget, lambda: a.val, 10),
    ("wrapped", A.wrapped.__wrapped__, lambda: a.wrapped(), 20),
    ("inner", inner, lambda: inner(1), 2),
]
problems = []
for name, fn, call, val in cases:
    ref = refstring(fn)
    try:
        with probing(f"{ref} > x") as p:
            by_ref = p["x"].accum()
            call()
    except Exception as exc:
        problems.append(f"{name}: {ref} raised {type(exc).__name__}: {exc}")
        continue
    if by_ref != [val]:
        problems.append(f"{name}: {ref} > x delivered {by_ref}, expected {[val]}")

if problems:
    print("FAIL: " + "; ".join(problems))
    sys.exit(1)
print("PASS")
