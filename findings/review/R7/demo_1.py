"""ee71e64: a generator advanced by a fresh call of the same function each time
(step(gen) in a loop) only matches `step > produce > load > item` for the first
call of step; later calls of step are live ancestors too, but the generator's
own pairs derive from the first activation's pair and are dropped on re-basing."""
import sys
from ptera import probing


def load(i):
    item = i * 10
    return item


def produce():
    for i in range(3):
        v = load(i)
        yield v


def step(gen):
    s = next(gen)
    return s


with probing("step > produce > load > item") as p:
    got = p["item"].accum()
    gen = produce()
    returned = [step(gen) for _ in range(3)]

# Same chain, observed through the generator's own variable: fires three times
with probing("step > produce > v") as p:
    got_v = p["v"].accum()
    gen = produce()
    for _ in range(3):
        step(gen)

expected = [0, 10, 20]
if returned != expected:
    print("FAIL: wrong return values", returned)
    sys.exit(1)
if got != expected or got_v != expected:
    print(
        f"FAIL: step > produce > load > item delivered {got}, expected {expected}"
        f" (step > produce > v delivered {got_v})"
    )
    sys.exit(1)
print("PASS")
