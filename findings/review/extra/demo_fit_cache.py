"""b375fc4 (robustness): re-entering a resumed generator for the call that resumes it read the
selector fit cache without filling it.  The cache is an optimisation (a module-level dict of
ptera.overlay): emptying it must change nothing.  Here it is emptied while the generator is
suspended; the canary `neutral-fit-cache-off` of /verif/tools/canaries.py (the cache is never
filled) is how this was found."""
import sys

import ptera.overlay
from ptera import probing, tooled


@tooled
def h(v):
    x = v
    return x


@tooled
def gen():
    k = 0
    while True:
        yield h(k)
        k += 10


@tooled
def f(a, g):
    b = a
    return next(g)


with probing("f(a) > gen > h > x") as p:
    got = p.accum()
    g = gen()
    try:
        f(1, g)
        ptera.overlay._selector_fit_cache.clear()
        f(2, g)
    except Exception as exc:
        print(f"FAIL: {type(exc).__name__}: {exc}")
        sys.exit(1)
if got != [{"a": 1, "x": 0}, {"a": 2, "x": 10}]:
    print(f"FAIL: events {got}")
    sys.exit(1)
print("PASS")
