"""a89bad3 (order): a resumed generator keeps the handlers it had in their old order and appends
the ones it takes over: an overlay that was active when it started, ended, and was entered again
after another one is the most recently activated for a direct call, but not for the calls the
generator makes (remark of the author of seeded change C04i)."""
import sys

from ptera import Overlay, tooled


@tooled
def h():
    x = 0
    return x


@tooled
def gen():
    a = 0
    while True:
        yield h()


ol1 = Overlay.tweaking({"h > x": 1})
ol2 = Overlay.tweaking({"h > x": 2})
with ol1:
    g = gen()
    next(g)
with ol2:
    with ol1:
        direct, via = h(), next(g)
if (direct, via) != (1, 1):
    print(f"FAIL: direct call sees {direct}, the call made by the resumed generator sees {via}")
    sys.exit(1)
print("PASS")
