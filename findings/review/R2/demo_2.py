"""0150888 / 78b7c64: 'o[lo():hi()] = v' -- slices were left out of the
evaluate-once rewrite: the bounds are evaluated twice, and before the value."""
import sys
from ptera import probing

LOG = []


def note(x):
    LOG.append(x)
    return x


class Box:
    def __setitem__(self, k, v):
        LOG.append(("set", k, v))


def f(o):
    o[note(1):note(2)] = note("value")
    return None


LOG.clear()
f(Box())
expected = list(LOG)

LOG.clear()
with probing("f > o") as p:
    p.subscribe(lambda d: None)
    f(Box())
got = list(LOG)

if got != expected:
    print(f"FAIL: side effects with a probe on o: {got}, without: {expected}")
    sys.exit(1)
print("PASS")
