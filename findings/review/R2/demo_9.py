"""cf1a0c2: the temporaries that mirror an unpacking target are never released,
so every unpacked value stays alive until the function returns: finalizers run
later than in the untouched function (same for the temporaries of 0150888)."""
import sys
from ptera import probing

LOG = []


class Res:
    def __init__(self, n):
        self.n = n

    def __del__(self):
        LOG.append(("released", self.n))


def f():
    conn, cur = Res("conn"), Res("cur")
    conn = None
    LOG.append("conn dropped")
    z = 1
    return z


LOG.clear()
f()
expected = list(LOG)

LOG.clear()
with probing("f > z") as p:
    p.subscribe(lambda d: None)
    f()
got = list(LOG)

if got != expected:
    print(f"FAIL: with a probe on z: {got}, without: {expected}")
    sys.exit(1)
print("PASS")
