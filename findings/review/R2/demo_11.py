"""4d5f0fd (incomplete): a function that declares 'nonlocal v' in order to
initialise v still cannot be probed while v's cell is empty: activation fails
with 'ValueError: Cell is empty' (closure values are read when the variant is
built)."""
import sys
from ptera import probing


def outer(probe):
    def init():
        nonlocal cache
        cache = {"ready": True}
        return cache

    if probe:
        with probing("init > cache", env={"init": init}) as p:
            log = []
            p.subscribe(log.append)
            init()
    else:
        init()
        log = [{"cache": {"ready": True}}]
    result = cache
    cache = None
    return result, log


expected = outer(False)
try:
    got = outer(True)
except BaseException as e:
    print(f"FAIL: probing init raised {type(e).__name__}: {e}")
    sys.exit(1)
if got != expected:
    print(f"FAIL: {got} != {expected}")
    sys.exit(1)
print("PASS")
