"""2c06b0b (regression): the default values of a lambda are evaluated in the
enclosing function; an assignment expression there binds the function's own
variable, and is no longer reported since lambdas are skipped wholesale."""
import sys
from ptera import probing


def f():
    g = lambda a=(k := 3): a + 1  # noqa: E731
    return g(), k


log = []
with probing("f > k") as p:
    p.subscribe(log.append)
    res = f()

if res != (4, 3) or log != [{"k": 3}]:
    print(f"FAIL: f() = {res}, events for k: {log}, expected [{{'k': 3}}]")
    sys.exit(1)
print("PASS")
