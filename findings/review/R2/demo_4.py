"""2c06b0b (incomplete): a nested 'async def' is left alone by the transformer
but the name collector does not know it binds a name: the name is taken for an
undefined global and the instrumented function fails at entry."""
import sys
from ptera import tooled, probing


def f():
    async def inner():
        return 1

    c = inner()
    c.close()
    return 5


problems = []
try:
    r = tooled(f)()
    if r != 5:
        problems.append(f"tooled(f)() = {r}")
except BaseException as e:
    problems.append(f"tooled(f)() raised {type(e).__name__}: {e}")

try:
    with probing("f > $x") as p:
        p.subscribe(lambda d: None)
        r = f()
    if r != 5:
        problems.append(f"probed f() = {r}")
except BaseException as e:
    problems.append(f"f() under probing('f > $x') raised {type(e).__name__}")

if problems:
    print("FAIL: " + "; ".join(problems))
    sys.exit(1)
print("PASS")
