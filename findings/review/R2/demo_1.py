"""bc90bec: 'with A() as a, B(a) as b' -- the interaction on a is deferred to
the start of the body, i.e. after B(a) has been evaluated."""
import sys
from contextlib import contextmanager
from ptera import probing


@contextmanager
def cm(v):
    yield v


def f():
    with cm(1) as a, cm(a + 1) as b:
        return a, b


def g():
    with cm(1) as x, cm(x + 1) as y, cm(3) as x:
        return x, y


problems = []

# 1. overriding a must be the same as cm(1) yielding 10: b == 11
with probing("f > a", overridable=True) as p:
    p.override(10)
    got = f()
if got != (10, 11):
    problems.append(f"override a=10: f() returned {got}, expected (10, 11)")

# 2. x is bound twice, to 1 then to 3, and y (=2) is bound in between
log = []
with probing("g > x") as px, probing("g > y") as py:
    px.subscribe(lambda d: log.append(("x", d["x"])))
    py.subscribe(lambda d: log.append(("y", d["y"])))
    g()
if log != [("x", 1), ("y", 2), ("x", 3)]:
    problems.append(f"binding history of g: {log}, expected x=1, y=2, x=3")

if problems:
    print("FAIL: " + "; ".join(problems))
    sys.exit(1)
print("PASS")
