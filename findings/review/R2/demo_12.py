"""f50c678 (regression): names that only occur in an except clause are now
fetched at entry; under full instrumentation (tooled, 'f > $x') a name that is
never used because the handler never runs makes the call fail."""
import sys
from ptera import tooled

try:
    import not_installed_backend
except ImportError:
    pass


def f(x):
    try:
        return x + 1
    except not_installed_backend.Error:  # only evaluated if x + 1 raises
        return None


assert f(1) == 2
try:
    got = tooled(f)(1)
except BaseException as e:
    print(f"FAIL: tooled(f)(1) raised {type(e).__name__}: {e}")
    sys.exit(1)
if got != 2:
    print(f"FAIL: {got}")
    sys.exit(1)
print("PASS")
