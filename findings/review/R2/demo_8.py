"""bc90bec / f7c1846 (incomplete): 'with cm() as (a, o.x)' -- as soon as one
element of the target is not a plain name, none of the names it binds is
reported (generate_interactions copes with such targets since f7c1846)."""
import sys
import types
from contextlib import contextmanager
from ptera import probing


@contextmanager
def cm(v):
    yield v


def f(o):
    with cm((1, 2)) as (a, o.x):
        return a + o.x


log = []
with probing("f > a", overridable=True) as p:
    p.subscribe(log.append)
    p.override(10)
    res = f(types.SimpleNamespace())

if log != [{"a": 1}] or res != 12:
    print(f"FAIL: events for a: {log} (expected [{{'a': 1}}]), f() = {res} (expected 12)")
    sys.exit(1)
print("PASS")
