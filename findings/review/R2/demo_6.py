"""4d5f0fd (incomplete): a function with 'nonlocal' can now be tooled, but the
tooled copy gets fresh cells (closure values are passed as arguments to a
wrapper): its writes never reach the enclosing scope."""
import sys
from ptera import tooled


def make(decorate):
    n = 0

    def inc():
        nonlocal n
        n += 1
        return n

    if decorate:
        inc = tooled(inc)

    def get():
        return n

    return inc, get


inc, get = make(False)
inc(), inc()
expected = get()

inc, get = make(True)
inc(), inc()
got = get()

if got != expected:
    print(f"FAIL: enclosing n is {got} after two tooled inc() calls, expected {expected}")
    sys.exit(1)
print("PASS")
