"""4d5f0fd: with 'global G' hoisted, the fetch 'G = interact("G", ...)' that
ptera inserts at entry for a global that is only read stores into the module
global: an override on G survives the call and the probe."""
import sys
from ptera import probing

G = 1


def f():
    global G
    return G + 1


before = f()
with probing("f > G", overridable=True) as p:
    p.override(100)
    during = f()
after_G = G
after = f()

if (before, after_G, after) != (2, 1, 2):
    print(
        f"FAIL: module global G is {after_G} after the probe ended (was 1);"
        f" f() returns {after} instead of {before} (during: {during})"
    )
    sys.exit(1)
print("PASS")
