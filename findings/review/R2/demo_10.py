"""7cbc100 (incomplete): a local annotation that *can* be evaluated is still
evaluated, when the variant is built and each time the statement runs; Python
never evaluates it."""
import sys
from ptera import probing

CALLS = []


def lazy_type():
    CALLS.append("evaluated")
    return int


def f():
    y: lazy_type() = 1
    return y


f()
assert CALLS == []
with probing("f > y") as p:
    p.subscribe(lambda d: None)
    f()

if CALLS:
    print(f"FAIL: the annotation of y was evaluated {len(CALLS)} time(s) under a probe, never without")
    sys.exit(1)
print("PASS")
