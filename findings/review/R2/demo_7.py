"""7cbc100 (incomplete): the annotation of an attribute / subscript target
('self.items: Names = []') is not evaluated by Python in a function either, but
the collector counts it as a real use: the name is fetched at entry and the
instrumented function raises."""
import sys
from typing import TYPE_CHECKING
from ptera import probing, tooled

if TYPE_CHECKING:
    from somewhere import Names  # noqa: F401


class Reg:
    def __init__(self, first):
        self.items: Names = [first]
        self.extra: "dict[str, Names]" = {}


problems = []
assert Reg(1).items == [1]
try:
    with probing("Reg.__init__ > $x") as p:
        p.subscribe(lambda d: None)
        r = Reg(1)
    if r.items != [1]:
        problems.append("wrong result")
except BaseException as e:
    problems.append(f"Reg(1) under a probe raised {type(e).__name__}: {e}")


def setup(o):
    o.items: Names = [1]
    return o.items


try:
    tooled(setup)(type("NS", (), {})())
except BaseException as e:
    problems.append(f"tooled(setup) raised {type(e).__name__}")

if problems:
    print("FAIL: " + "; ".join(problems))
    sys.exit(1)
print("PASS")
