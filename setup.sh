#!/bin/sh
# Offline setup: nothing to build; verify the interpreter and the dependencies the checks import.
set -e
cd "$(dirname "$0")"
/venv/bin/python - <<'PY'
import sys
sys.path.insert(0, "/repo")
import ptera, giving, reactivex, codefind
print("setup ok: python", sys.version.split()[0], "ptera from", ptera.__file__)
PY
mkdir -p evidence replays
