"""World: one run = one seed = one fresh process image (DESIGN.md 3.1).

* ``bootstrap()`` re-execs once with a pinned hash seed, puts the ptera tree
  under test first on ``sys.path`` and imports ptera + its dependencies once,
  single-threaded, in the parent.
* ``run_many()`` forks one child per run from that parent (so every run starts
  from the byte-identical interpreter state), up to ``jobs`` children at a
  time, each with a hard wall timeout and a faulthandler dump.  A timeout, a
  crash or a harness exception is a HARNESS-ERROR, never "held", never a
  VIOLATION.
* ``install_seams()`` is called inside the child before anything runs.
"""

import faulthandler
import hashlib
import json
import os
import select
import signal
import sys
import time
import traceback

VERIF = os.path.dirname(os.path.dirname(os.path.abspath(__file__)))
PTERA_SRC = os.environ.get("PTERA_SRC", "/repo")
GUARD = "PTERA_VERIF"


def bootstrap():
    want = os.environ.get("VERIF_HASHSEED", "0")
    if (
        os.environ.get("PYTHONHASHSEED") != want
        or os.environ.get("PYTHONDONTWRITEBYTECODE") != "1"
        or os.environ.get(GUARD) != "1"
    ):
        env = dict(os.environ)
        env["PYTHONHASHSEED"] = want
        env["PYTHONDONTWRITEBYTECODE"] = "1"
        env[GUARD] = "1"
        os.execve(sys.executable, [sys.executable] + sys.argv, env)
    src = os.path.abspath(PTERA_SRC)
    # the tree under test first, then /verif (for ``sim``)
    sys.path[:] = [p for p in sys.path if os.path.abspath(p or ".") != src]
    sys.path.insert(0, src)
    if VERIF not in sys.path:
        sys.path.insert(1, VERIF)
    import warnings

    warnings.simplefilter("ignore")
    import codefind  # noqa: F401
    import giving  # noqa: F401
    import reactivex  # noqa: F401
    import ptera

    got = os.path.dirname(os.path.dirname(os.path.abspath(ptera.__file__)))
    if got != src:
        raise SystemExit(
            f"HARNESS-ERROR ptera imported from {got}, expected {src}"
        )
    return ptera


def mix(*parts):
    h = hashlib.sha256(repr(parts).encode()).digest()
    return int.from_bytes(h[:8], "big")


def digest(obj):
    return hashlib.sha256(
        json.dumps(obj, sort_keys=True, default=repr).encode()
    ).hexdigest()[:16]


class SimClock:
    """Replacement for ``codefind.registry.time``: a clock the scenario owns.

    ``mode == 'fast'`` : every gc scan appears to cost 0 s (codefind trusts
    gc.get_referrers).  ``mode == 'slow'`` : every scan appears to cost 1 s
    (> MAX_TIME, so codefind answers from the cache ptera maintains)."""

    def __init__(self):
        self.now = 0.0
        self.mode = "fast"
        self.reads = 0

    def time(self):
        self.reads += 1
        if self.mode == "slow" and self.reads % 2 == 0:
            self.now += 1.0
        return self.now


class OrderedSet:
    """Insertion-ordered replacement for ``ptera.probe.global_probes`` so that
    the exit hook's order is a scheduler decision, not a function of ids."""

    def __init__(self):
        self._d = {}

    def add(self, x):
        self._d[x] = True

    def remove(self, x):
        del self._d[x]

    def discard(self, x):
        self._d.pop(x, None)

    def __iter__(self):
        return iter(list(self._d))

    def __len__(self):
        return len(self._d)

    def __contains__(self, x):
        return x in self._d


SEAMS = {}


def install_seams():
    import gc

    gc.disable()
    import codefind.registry as reg

    clock = SimClock()
    reg.time = clock
    reg.code_registry if hasattr(reg, "code_registry") else None
    import ptera.probe as pp

    if isinstance(getattr(pp, "global_probes", None), (set, frozenset)):
        # a plain set iterates in address order: give the exit hook a scheduler-owned order instead
        gp = OrderedSet()
        for p in list(pp.global_probes):  # pragma: no cover - always empty
            gp.add(p)
        pp.global_probes = gp
    # (any other container -- a dict keyed by id, a list -- has an order of its own: left alone)
    SEAMS["clock"] = clock
    SEAMS["global_probes"] = True
    return SEAMS


def global_probe_list():
    """The probes ptera's exit hook would deactivate, whatever container it keeps them in."""
    import ptera.probe as pp

    gp = getattr(pp, "global_probes", None)
    if gp is None:
        return None
    if isinstance(gp, dict):
        return [v if not isinstance(v, (int, str)) else k for k, v in gp.items()]
    return list(gp)


# ---------------------------------------------------------------------------
# fork runner


def _child(fn, task, wfd, timeout):
    """Runs in the forked child: never returns."""
    code = 0
    try:
        faulthandler.enable(file=sys.stderr)
        faulthandler.dump_traceback_later(timeout, exit=True, file=sys.stderr)
        install_seams()
        try:
            res = fn(task)
            out = {"ok": True, "res": res}
        except BaseException:
            out = {"ok": False, "err": traceback.format_exc()[-4000:]}
        data = json.dumps(out, default=repr).encode()
        with os.fdopen(wfd, "wb") as f:
            f.write(data)
    except BaseException:  # pragma: no cover
        code = 3
    finally:
        faulthandler.cancel_dump_traceback_later()
        sys.stdout.flush()
        sys.stderr.flush()
        os._exit(code)


def run_many(fn, tasks, jobs=16, timeout=60, on_result=None, wall_cap=None, keep=True):
    """Run fn(task) in a forked child for every task; returns results in task
    order.  Result: {"ok": True, "res": ...} | {"ok": False, "err": ...}."""
    tasks = list(tasks)
    results = [None] * len(tasks)
    live = {}  # rfd -> (idx, pid, t0, chunks)
    nxt = 0
    t_start = time.time()
    stopped = False
    while nxt < len(tasks) or live:
        while nxt < len(tasks) and len(live) < jobs and not stopped:
            if wall_cap is not None and time.time() - t_start > wall_cap:
                stopped = True
                break
            rfd, wfd = os.pipe()
            sys.stdout.flush()
            sys.stderr.flush()
            pid = os.fork()
            if pid == 0:
                os.close(rfd)
                for other in live:
                    try:
                        os.close(other)
                    except OSError:
                        pass
                _child(fn, tasks[nxt], wfd, timeout)
            os.close(wfd)
            live[rfd] = (nxt, pid, time.time(), [])
            nxt += 1
        if stopped and not live:
            break
        if not live:
            continue
        ready, _, _ = select.select(list(live), [], [], 0.5)
        now = time.time()
        for rfd in ready:
            idx, pid, t0, chunks = live[rfd]
            data = os.read(rfd, 1 << 16)
            if data:
                chunks.append(data)
                continue
            os.close(rfd)
            del live[rfd]
            _, status = os.waitpid(pid, 0)
            raw = b"".join(chunks)
            try:
                results[idx] = json.loads(raw.decode())
            except Exception:
                results[idx] = {
                    "ok": False,
                    "err": f"child died status={status} output={raw[:200]!r}",
                }
            if on_result is not None:
                if on_result(idx, results[idx]) == "stop":
                    stopped = True
            if not keep:
                results[idx] = None
        for rfd, (idx, pid, t0, chunks) in list(live.items()):
            if now - t0 > timeout + 5:
                try:
                    os.kill(pid, signal.SIGKILL)
                except OSError:
                    pass
                os.waitpid(pid, 0)
                os.close(rfd)
                del live[rfd]
                results[idx] = {"ok": False, "err": "timeout"}
                if on_result is not None:
                    on_result(idx, results[idx])
    return results
