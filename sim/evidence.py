"""Batch driver: pinned scenarios, known findings, seeded search, minimise,
replay, evidence file (DESIGN.md 3.8, 3.9, 8)."""

import glob
import json
import os
import subprocess
import sys
import time

from . import cli, world

COMPONENTS_REAL = [
    "ptera (all modules, from the tree under test)",
    "giving / reactivex (probe pipelines)",
    "codefind.registry logic",
    "CPython generators, contextvars, threads, compile/exec",
]
COMPONENTS_STUB = [
    "codefind.registry.time (simulated clock)",
    "garbage collector schedule (gc disabled; collect is a scheduled op)",
    "ptera.probe.global_probes (insertion-ordered set so exit order is a scheduler choice)",
    "actor environment ENV (tape-driven values, branches, iterators, context managers, faults)",
]


def describe(sc):
    """A scenario written out the way a person would read it."""
    from . import msel

    out = []
    if "threads" in sc:
        for t, th in enumerate(sc["threads"]):
            for rnd in th.get("rounds") or [{"probe": th.get("probe"), "calls": th.get("calls", [])}]:
                pr = rnd.get("probe")
                sel = [msel.render(x) for x in pr["sels"]] if pr else None
                out.append(f"thread {t}: " + (f"{pr['kind']} {sel}; " if pr else "no probe; ")
                           + "; ".join(f"call {c['fn']} tape={c.get('tape')}" for c in rnd["calls"]))
        out.append(f"schedule: {sc['sched']}")
        return out
    if sc.get("program"):
        out.append(f"generated program with functions {[f['name'] for f in sc['program'].get('functions', [])]}")
    for op in sc.get("ops", []):
        k = op["op"]
        if k == "mk":
            sels = [msel.render(x, style=op.get("style", 0)) for x in op["sels"]]
            extra = "".join(f" {a}={op[a]}" for a in ("how", "ptype", "raw", "filtered") if op.get(a))
            out.append(f"mk {op['id']}: {op.get('kind', 'probe')} {sels}{extra}")
        elif k in ("call",) or k.startswith("gen_") or k == "gc":
            tgt = op.get("fn") or op.get("gen") or ""
            bits = [k, tgt]
            if op.get("tape"):
                bits.append(f"tape={op['tape']}")
            if op.get("faults"):
                bits.append(f"faults={op['faults']}")
            if op.get("box"):
                bits.append(f"box={op['box']}")
            out.append(" ".join(str(b) for b in bits if b != ""))
        else:
            out.append(" ".join(f"{a}={v}" if a != "op" else str(v) for a, v in op.items()))
    return out


def _load_json(p):
    with open(p) as f:
        return json.load(f)


def run_check(prop, lens, args, seed, known, t0):
    tier = args.tier
    jobs = args.jobs
    runs = args.runs or lens.RUNS[tier] if hasattr(lens, "RUNS") else (args.runs or (2000 if tier == "quick" else 60000))
    out_lines = []
    herrs = []
    violations = []  # (idx or name, inv, scenario, detail)

    # 1. known findings: pinned replays ------------------------------------------
    kf_report = []
    tasks = []
    # (a fixed entry without a replay was shown by a stand-alone script: nothing to re-run here)
    known = [k for k in known if k.get("replay")]
    for k in known:
        rp = _load_json(os.path.join(world.VERIF, k["replay"]))
        tasks.append({"scenario": rp["scenario"]})
    rs = world.run_many(cli._run_task, tasks, jobs=jobs, timeout=60) if tasks else []
    for k, r in zip(known, rs):
        if not r.get("ok"):
            herrs.append(f"known-finding replay {k['id']} crashed: {r.get('err')}")
            continue
        hit = [v for v in r["res"]["viol"] if v[0] == k["invariant"]]
        if k["status"] == "open":
            if hit:
                out_lines.append(f"KNOWN-FINDING: property={prop} {k['id']} {k['what']}")
                kf_report.append({"id": k["id"], "reproduced": True})
            else:
                out_lines.append(
                    f"NOTE: open finding {k['id']} no longer reproduces -- update known_findings.json"
                )
                kf_report.append({"id": k["id"], "reproduced": False})
        else:
            if r["res"]["viol"]:
                v = r["res"]["viol"][0]
                rp = _load_json(os.path.join(world.VERIF, k["replay"]))
                violations.append((k["id"], v[0], rp["scenario"], v))
            kf_report.append({"id": k["id"], "fixed": True, "clean": not r["res"]["viol"]})

    # 2. pinned scenarios ----------------------------------------------------------
    pinned = sorted(glob.glob(os.path.join(world.VERIF, "pinned", prop, "*.json")))
    ptasks = [{"scenario": _load_json(p)["scenario"]} for p in pinned]
    prs = world.run_many(cli._run_task, ptasks, jobs=jobs, timeout=60) if ptasks else []
    for p, r in zip(pinned, prs):
        if not r.get("ok"):
            herrs.append(f"pinned {p} crashed: {r.get('err')}")
        elif r["res"]["herr"]:
            herrs.append(f"pinned {p}: {r['res']['herr'][0]}")
        elif r["res"]["viol"]:
            v = r["res"]["viol"][0]
            violations.append((os.path.basename(p), v[0], _load_json(p)["scenario"], v))

    # 3. seeded search ---------------------------------------------------------------
    agg = {
        "evaluations": 0, "events": 0, "steps": 0, "ops": 0, "sig": set(),
        "faults_fired": {}, "reach": {}, "kinds": {}, "foreign": {}, "nontrivial_runs": 0,
        "digests": [],
    }
    samples = []
    first_bad = {}

    def on_result(idx, r):
        if not r.get("ok"):
            herrs.append(f"run {idx}: {r.get('err')}")
            return
        res = r["res"]
        agg["evaluations"] += 1
        agg["events"] += res["events"]
        agg["steps"] += res["steps"]
        agg["ops"] += res["ops"]
        if res["events"] or res["steps"]:
            agg["nontrivial_runs"] += 1
            agg["sig"].update(res["sig"])
        for key in ("faults_fired", "reach", "kinds"):
            for k2, n in res["stats"].get(key, {}).items():
                agg[key][k2] = agg[key].get(k2, 0) + n
        for inv, _ in res["foreign"]:
            agg["foreign"][inv] = agg["foreign"].get(inv, 0) + 1
        if res["herr"]:
            herrs.append(f"run {idx}: {json.dumps(res['herr'][0], default=repr)[:1500]}")
        if len(samples) < 3 and res["events"] and "scenario" in res:
            samples.append({"run": idx, "history": describe(res["scenario"]),
                            "events_delivered": res["events"], "trace_events": res["steps"]})
        if res["viol"] and not args.keep_going:
            first_bad[idx] = res
            return "stop"
        if res["viol"]:
            first_bad[idx] = res

    sweep_n = 0 if (tier != "thorough" or args.only_run is not None or not getattr(lens, "SWEEP", True)) else 80
    tasks = [{"seed": world.mix(seed, prop, tier, i), "want_scenario": i < max(12, sweep_n)} for i in range(runs)]
    if args.only_run is not None:
        tasks = [{"seed": world.mix(seed, prop, tier, args.only_run)}]
    cap = getattr(lens, "WALL_CAP", {}).get(tier) if hasattr(lens, "WALL_CAP") else None
    sweep_bases = []

    def on_result_collect(idx, r):
        if sweep_n and r.get("ok") and idx < sweep_n and "scenario" in r["res"] and r["res"]["events"]:
            sweep_bases.append(r["res"]["scenario"])
        return on_result(idx, r)

    world.run_many(cli._run_task, tasks, jobs=jobs, timeout=60, on_result=on_result_collect, wall_cap=cap, keep=False)
    agg["fault_sweep_runs"] = 0
    if sweep_bases and not first_bad and not herrs:
        # thorough tier: the classic "fail the k-th interaction" sweep, systematically, over the
        # first scenarios that delivered events: every code-running operation gets a failure at
        # every interaction index up to a bound, as an Exception and as a BaseException
        stasks = []
        for sc in sweep_bases:
            for oi, op in enumerate(sc.get("ops", [])):
                if op.get("op") != "call" and not str(op.get("op")).startswith("gen_"):
                    continue
                if op.get("op") in ("gen_new", "gen_drop"):
                    continue
                for k in range(0, 24):
                    for kind in ("E", "B") if k % 3 == 0 else ("E",):
                        ops2 = list(sc["ops"])
                        ops2[oi] = dict(op, faults={str(k): kind})
                        stasks.append({"scenario": dict(sc, ops=ops2)})
        stasks = stasks[:20000]
        agg["fault_sweep_runs"] = len(stasks)
        base = len(tasks)
        world.run_many(cli._run_task, stasks, jobs=jobs, timeout=60,
                       on_result=lambda i, r: on_result(base + i, r), keep=False)
    for idx in sorted(first_bad):
        res = first_bad[idx]
        v = res["viol"][0]
        violations.append((idx, v[0], res["scenario"], v))
        if not args.keep_going:
            break
    if args.keep_going and first_bad:
        byinv = {}
        for idx in sorted(first_bad):
            for v in first_bad[idx]["viol"]:
                byinv.setdefault(v[0], []).append(idx)
        for inv, idxs in byinv.items():
            print(f"  {inv}: {len(idxs)} runs, e.g. {idxs[:5]}")
        classes = {}
        for idx in sorted(first_bad):
            for v in first_bad[idx]["viol"]:
                key = cli.triage_key(v)
                classes.setdefault(key, []).append(idx)
        for key, idxs in sorted(classes.items(), key=lambda t: -len(t[1])):
            print(f"  [{len(idxs):4d}] {key}  e.g. runs {idxs[:3]}")

    wall = time.time() - t0
    status = 0
    replay_paths = []
    if herrs:
        status = 2
    elif violations:
        status = 1
        name, inv, sc, detail = violations[0]
        if not args.no_minimise:
            sc = cli.minimise(sc, inv, jobs)
            r = world.run_many(cli._run_task, [{"scenario": sc}], jobs=1, timeout=60)[0]
            if r.get("ok"):
                hit = [v for v in r["res"]["viol"] if v[0] == inv]
                if hit:
                    detail = hit[0]
        path = cli.write_replay(prop, seed, name, sc, inv, detail)
        # replay in a fresh process before reporting
        pr = subprocess.run(
            [sys.executable, os.path.join(world.VERIF, "check"), prop, "--replay", path],
            capture_output=True, text=True, timeout=300,
        )
        if pr.returncode != 1:
            herrs.append(f"replay of {path} did not reproduce (exit {pr.returncode}): {pr.stdout[-500:]}")
            status = 2
        else:
            replay_paths.append(path)
            out_lines.append(f"VIOLATION property={prop} replay={path}")
            out_lines.append(f"  invariant {inv}: {json.dumps(detail, default=repr)[:1200]}")

    ev = {
        "property_id": prop,
        "tier": tier,
        "seed": seed,
        "level": "exploration",
        "coverage": {
            "evaluations": max(1, agg["evaluations"] + len(pinned) + len(known)),
            "distinct_nontrivial": len(agg["sig"]),
            "rule": getattr(lens, "RULE", "") or (
                "seeded runs; a run is non-trivial if it executed probed code; distinct = distinct "
                "(operation kind, function, outcome class, active selector set) tuples reached"
            ),
            "samples": samples or [{"note": "no run delivered an event"}],
            "seeded_runs": agg["evaluations"] - agg.get("fault_sweep_runs", 0),
            "fault_index_sweep_runs": agg.get("fault_sweep_runs", 0),
            "pinned_scenarios": len(pinned),
            "known_finding_replays": kf_report,
            "nontrivial_runs": agg["nontrivial_runs"],
            "runs_per_hour": int(agg["evaluations"] / max(wall, 1e-6) * 3600),
            "simulated_time": {
                "simulator_steps(trace events)": agg["steps"],
                "operations": agg["ops"],
                "probe_events_delivered": agg["events"],
            },
            "env_interactions_by_kind": agg["kinds"],
            "faults_fired_by_kind": agg["faults_fired"],
            "reach_probes": agg["reach"],
            "foreign_invariants_tripped(ignored by this check)": agg["foreign"],
            "quarantine_rules": list(cli._QUAR),
            "components_real": COMPONENTS_REAL,
            "components_stub": COMPONENTS_STUB,
        },
        "assumptions": getattr(lens, "ASSUMPTIONS", []),
        "wall_s": round(wall, 2),
        "violations": len(replay_paths),
    }
    if herrs:
        ev["coverage"]["harness_errors"] = herrs[:5]
    # evidence/ describes /repo; a run against another tree (PTERA_SRC: seeded changes, canaries,
    # pinning on an older commit) leaves its record next to the replays instead
    evdir = "evidence" if os.path.abspath(world.PTERA_SRC) == "/repo" else os.path.join("replays", "evidence-other-tree")
    os.makedirs(os.path.join(world.VERIF, evdir), exist_ok=True)
    with open(os.path.join(world.VERIF, evdir, f"{prop}.json"), "w") as f:
        json.dump(ev, f, indent=1, default=repr)
    for ln in out_lines:
        print(ln)
    for h in herrs[:5]:
        print("HARNESS-ERROR", h)
    print(
        f"{prop} {tier}: {agg['evaluations']} runs, {len(agg['sig'])} distinct states, "
        f"{agg['events']} events, faults {agg['faults_fired']}, reach {agg['reach']}, {wall:.1f}s, exit {status}"
    )
    return status
