"""The simulated environment of an actor: tape, fault plan, ordered log.

Actors do not compute, they ask (DESIGN.md 3.2/3.3).  Every value, branch, loop
length, context-manager behaviour and raised exception comes from an ``Env``
instance that the simulator installs as the module global ``ENV`` of the actor
module before each operation.  Every interaction

* appends one entry to the ordered ``log`` (the externally visible side
  effects of the program, in order), and
* advances the interaction index ``k``; the fault plan maps some ``k`` to a
  fault, which makes that very interaction raise (the classic "fail the k-th
  system call").

Nothing here reads a clock, draws randomness or depends on hash order.
"""

ABSENT_MARK = ["ABSENT"]


class EnvFault(Exception):
    """An injected failure (Exception flavour)."""

    def __init__(self, k):
        super().__init__(k)
        self.k = k

    def __repr__(self):
        return f"EnvFault({self.k})"


class EnvBaseFault(BaseException):
    """An injected failure that is not an Exception (KeyboardInterrupt-like)."""

    def __init__(self, k):
        super().__init__(k)
        self.k = k

    def __repr__(self):
        return f"EnvBaseFault({self.k})"


class ProgErr(Exception):
    """Raised by the program itself (``raise ENV.exc(site)``)."""

    def __init__(self, site, n):
        super().__init__(site, n)
        self.site = site
        self.n = n

    def __repr__(self):
        return f"ProgErr({self.site},{self.n})"


class OtherErr(Exception):
    """A second program exception class (so handlers can be selective)."""

    def __init__(self, site, n):
        super().__init__(site, n)
        self.site = site
        self.n = n

    def __repr__(self):
        return f"OtherErr({self.site},{self.n})"


class EnvObj:
    """A mutable object whose attribute / item stores are logged."""

    def __init__(self, env, label):
        object.__setattr__(self, "_env", env)
        object.__setattr__(self, "_label", label)
        object.__setattr__(self, "_items", {})

    def __setattr__(self, name, value):
        env = object.__getattribute__(self, "_env")
        env._step("setattr", self._label, [name, canon(value)])
        object.__setattr__(self, name, value)

    def __setitem__(self, key, value):
        env = object.__getattribute__(self, "_env")
        env._step("setitem", self._label, [canon(key), canon(value)])
        self._items[key] = value

    def __getitem__(self, key):
        return self._items[key]

    def __repr__(self):
        return f"<obj {self._label}>"


class EnvIter:
    """Iterator whose every ``__next__`` is an interaction (so a fault can land
    in the middle of a loop and the amount consumed is part of the log)."""

    def __init__(self, env, site, items):
        self._env = env
        self._site = site
        self._items = list(items)
        self._pos = 0

    def __iter__(self):
        return self

    def __next__(self):
        env = self._env.current()
        if self._pos >= len(self._items):
            env._step("iter_end", self._site, None)
            raise StopIteration
        env._step("iter_next", self._site, self._pos)
        v = self._items[self._pos]
        self._pos += 1
        return v

    def __repr__(self):
        return f"<iter {self._site}>"


class EnvCM:
    """Context manager: enter value, exit behaviour decided by the tape."""

    def __init__(self, env, site, value, swallow):
        self._env = env
        self._site = site
        self._value = value
        self._swallow = swallow

    def __enter__(self):
        self._env.current()._step("cm_enter", self._site, None)
        return self._value

    def __exit__(self, typ, exc, tb):
        self._env.current()._step(
            "cm_exit", self._site, None if typ is None else typ.__name__
        )
        return bool(self._swallow and typ is not None)

    def __repr__(self):
        return f"<cm {self._site}>"


def canon(v, depth=0):
    """Canonical, JSON-able, address-free rendering of a value."""
    if v is None or isinstance(v, (bool, int, str)):
        return v
    if depth > 6:
        return ["..."]
    t = type(v)
    if t is tuple:
        return ["tuple", [canon(x, depth + 1) for x in v]]
    if t is list:
        return ["list", [canon(x, depth + 1) for x in v]]
    if t is dict:
        return [
            "dict",
            [[canon(k, depth + 1), canon(x, depth + 1)] for k, x in v.items()],
        ]
    if t in (set, frozenset):
        return ["set", sorted((canon(x, depth + 1) for x in v), key=repr)]
    if isinstance(v, (EnvFault, EnvBaseFault)):
        return ["exc", t.__name__, v.k]
    if isinstance(v, (ProgErr, OtherErr)):
        return ["exc", t.__name__, v.site, v.n]
    if t.__name__ == "PteraNameError":
        try:
            info = v.info()
            ann = info.get("annotation")
            extra = [repr(ann) if not isinstance(ann, type) else ann.__name__, info.get("provenance")]
        except Exception as e:  # info() not available
            extra = ["info-failed", type(e).__name__]
        return ["exc", "PteraNameError", v.varname,
                getattr(v.function, "__qualname__", None)] + extra
    if isinstance(v, BaseException):
        return ["exc", t.__name__, [canon(a, depth + 1) for a in v.args][:3]]
    if isinstance(v, EnvObj):
        return ["obj", v._label]
    if isinstance(v, EnvIter):
        return ["iter", v._site]
    if isinstance(v, EnvCM):
        return ["cm", v._site]
    if isinstance(v, Env):
        return ["ENV"]
    if t.__name__ == "Named" and getattr(v, "name", None) == "ABSENT":
        return ABSENT_MARK
    import types

    if isinstance(v, types.FunctionType):
        return ["fn", v.__name__]
    if isinstance(v, types.MethodType):
        return ["meth", v.__func__.__name__, canon(v.__self__, depth + 1)]
    if isinstance(v, types.GeneratorType):
        return ["gen", v.__name__]
    if isinstance(v, types.ModuleType):
        return ["mod", v.__name__]
    if isinstance(v, type):
        return ["class", v.__name__]
    lab = getattr(v, "_label", None)
    if isinstance(lab, str):
        return ["inst", t.__name__, lab]
    if isinstance(v, float):
        return ["float", repr(v)]
    return ["?", t.__name__]


def has_absent(c):
    """Does a canonical value mention ptera's ABSENT marker?"""
    if c == ABSENT_MARK:
        return True
    if isinstance(c, list):
        return any(has_absent(x) for x in c)
    return False


class Env:
    """One operation's environment.

    tape   : list of small ints, consumed one per decision; exhausted => 0
    faults : {interaction index k: "E" | "B"}  (Exception / BaseException)
    base   : first unique value handed out
    """

    def __init__(self, tape=(), faults=None, base=1000, box=None):
        self.nobj = 0
        self.reset(tape, faults, base, box)

    def reset(self, tape=(), faults=None, base=1000, box=None):
        """Begin a new operation: the object identity stays (ptera snapshots
        the global ``ENV`` at function entry, and a generator suspended across
        operations must keep talking to the same environment)."""
        self.tape = list(tape)
        self.tp = 0
        self.faults = {int(k): v for k, v in (faults or {}).items()}
        self.k = 0
        self.log = []
        self.nv = base
        self.fired = []
        self.kinds = {}
        self.box = box  # optional small value box (C12): values drawn from tape
        self.nobj = 0  # object labels are per operation (twins may have diverged earlier under an override)
        self.on_step = None
        return self

    def current(self):
        return self

    # -- plumbing ---------------------------------------------------------
    def _draw(self):
        if self.tp < len(self.tape):
            v = self.tape[self.tp]
        else:
            v = 0
        self.tp += 1
        return v

    def _step(self, kind, site, payload):
        k = self.k
        self.k += 1
        self.kinds[kind] = self.kinds.get(kind, 0) + 1
        if self.on_step is not None:
            # the simulator may do something of its own at the k-th interaction of an operation --
            # from *inside* the running program (a probe activated / deactivated in mid-call)
            self.on_step(k)
        f = self.faults.get(k)
        if f is not None:
            self.fired.append([k, kind, f])
            self.log.append([kind, site, "FAULT", f])
            if f == "B":
                raise EnvBaseFault(k)
            raise EnvFault(k)
        self.log.append([kind, site, payload])

    def _fresh(self):
        if self.box is not None:
            # C12: values from a small box, decided by the tape (uniqueness relaxed)
            lo, hi = self.box
            return lo + self._draw() % (hi - lo + 1)
        v = self.nv
        self.nv += 1
        return v

    # -- the actor-facing API --------------------------------------------
    def val(self, site):
        v = self._fresh()
        self._step("val", site, v)
        return v

    def cond(self, site):
        c = bool(self._draw() % 2)
        self._step("cond", site, c)
        return c

    def pick(self, site, n):
        c = self._draw() % n
        self._step("pick", site, c)
        return c

    def iter(self, site, width=1):
        n = self._draw() % 4
        items = []
        for _ in range(n):
            if width == 1:
                items.append(self._fresh())
            else:
                items.append(tuple(self._fresh() for _ in range(width)))
        self._step("iter", site, canon(items))
        return EnvIter(self, site, items)

    def seq(self, site, n, kind):
        """A container of n fresh values.  kind in tuple/list/gen/dict/set/iter;
        the tape may shorten or lengthen it by one (kind suffix '?')."""
        if kind.endswith("?"):
            kind = kind[:-1]
            d = self._draw() % 3
            n = max(0, n + (0, -1, 1)[d])
        vals = [self._fresh() for _ in range(n)]
        self._step("seq", site, [kind, vals])
        if kind == "tuple":
            return tuple(vals)
        if kind == "list":
            return list(vals)
        if kind == "gen":
            return (v for v in vals)
        if kind == "dict":
            return {v: -v for v in vals}
        if kind == "set":
            return set(vals)
        if kind == "iter":
            return EnvIter(self, site, vals)
        if kind == "nest":
            # n outer items, each a pair
            return [(v, (self._fresh(), self._fresh())) for v in vals]
        raise ValueError(kind)

    def cm(self, site, *deps):
        swallow = self._draw() % 2
        v = self._fresh()
        # (what the manager was made from -- the target of an earlier item of the same with
        # statement -- is part of what the environment sees)
        self._step("cm", site, [v, swallow] + [canon(d) for d in deps])
        return EnvCM(self, site, v, swallow)

    def pt(self, site):
        self._step("pt", site, None)

    def use(self, site, *vals):
        self._step("use", site, [canon(v) for v in vals])

    def exc(self, site, other=False):
        n = self._fresh()
        self._step("exc", site, n)
        return (OtherErr if other else ProgErr)(site, n)

    def obj(self, site):
        self.nobj += 1
        o = EnvObj(self, f"{site}#{self.nobj}")
        self._step("obj", site, o._label)
        return o
