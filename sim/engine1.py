"""Engine E1: single-caller history simulator (DESIGN.md 3.5).

A scenario is ``{"prog": name, "program": IR (optional, for compositions),
"ops": [op...]}``.  Every operation is interpreted against real ptera (the
``_sys`` twin) and against the models (the ``_ref`` twin, the traced twin and
M-sel / M-life), and the invariants are evaluated after every operation.  Any
subsequence of a valid operation list is executable: an operation whose subject
does not exist or is in the wrong state is a recorded no-op.
"""

import gc
import json

from . import msel
from .env import canon, has_absent
from .harness import HarnessError, Sim
from .world import SEAMS, global_probe_list


def _key(d):
    import json

    return json.dumps(d, sort_keys=True, default=repr)


class ProbeRec:
    def __init__(self, spec):
        self.spec = spec
        self.id = spec["id"]
        self.obj = None
        self.active = False
        self.entered = False  # ever entered
        self.dead = False
        self.got = []  # delivered events (canon), flat, in order
        self.got_op = []  # op index of each
        self.overrides = []
        self.stages = []
        self.pending = []
        self.changes = []  # trace lengths at which this probe was (de)activated
        self.expect_exit_error = False
        self.enter_error = None
        self.exp_all = []  # expected events (model) since creation: (opi, ev)
        self.rules = None  # overlays derived from another one: [(selector, how)], inherited rules first


DECLINE = object()


def apply_override(how, value, ctx, real=False):
    """The override functions of the C04 lens; the very same function is
    installed in ptera (real=True: declining is ABSENT) and used by the model."""
    decline = DECLINE
    if real:
        from ptera.utils import ABSENT

        decline = ABSENT
    kind = how[0]
    isint = isinstance(value, int) and not isinstance(value, bool)
    if kind == "const":
        return how[1]
    if kind == "add":
        return value + how[1] if isint else decline
    if kind == "ctx_add":
        c = ctx.get(how[1])
        if isint and isinstance(c, int) and not isinstance(c, bool):
            return value + c
        return decline
    if kind == "even_const":
        return how[1] if (isint and value % 2 == 0) else decline
    if kind == "odd_add":
        return value + how[1] if (isint and value % 2 == 1) else decline
    if kind == "ctx_mod3_const":
        # decided by a context variable alone (usable where there is no tentative value: declarations)
        c = ctx.get(how[1])
        c = c.get("values", [None])[-1] if isinstance(c, dict) else c
        return how[2] if (isinstance(c, int) and not isinstance(c, bool) and c % 3 == 0) else decline
    raise ValueError(how)


def _walk_stmts(stmts):
    for st in stmts:
        if not isinstance(st, list) or not st:
            continue
        yield st
        for part in st[1:]:
            if isinstance(part, list) and part and isinstance(part[0], list):
                yield from _walk_stmts(part)
                for sub in part:
                    if isinstance(sub, list):
                        for q in sub:
                            if isinstance(q, list) and q and isinstance(q[0], list):
                                yield from _walk_stmts(q)


def _flat_targets(t):
    if isinstance(t, str):
        return [t]
    if t[0] == "*":
        return [t[1]]
    if t[0] == "t":
        return [n for u in t[1] for n in _flat_targets(u)]
    return []


def canon_event(data):
    from ptera.interpret import Capture

    out = {}
    for k, v in data.items():
        if isinstance(v, Capture):
            out[k] = {"names": list(v.names), "values": [canon(x) for x in v.values]}
        elif k == "$wrap":
            out[k] = {"name": v.get("name"), "step": v.get("step")}
        else:
            out[k] = canon(v)
    return out


class Engine:
    def __init__(self, scenario, judge=()):
        self.sc = scenario
        self.judge = set(judge)  # invariant prefixes this lens reports
        from . import catalogue

        program = scenario.get("program") or catalogue.get(scenario["prog"])
        variants = ("trc", "sys") if scenario.get("no_ref") else ("ref", "trc", "sys")
        self.sim = Sim(program, scenario.get("prog_name") or scenario["prog"], variants=variants)
        self.sim.tr.decl_hook = self.decl_hook
        self.viol = []
        self.harness_err = []
        self.fail_idx_now = []
        msel.SUPERSEDED = scenario.get("superseded_returns", "kept")
        self.probes = {}
        self.order = []  # ids of active probes in activation order
        self.obs = []
        self.sig = set()
        self.opi = -1
        self.ops_done = 0
        self.quarantined = 0
        self._gen_fn = {}
        self._latest = {}
        self.tooled_inplace = set()
        self._recv_cache = {}
        self._enter_cache = {}
        self._gen_created = {}
        self._created_at = {}

    # -- reporting --------------------------------------------------------------
    def violate(self, inv, detail):
        self.viol.append([inv, self.opi, detail])

    def herr(self, what, detail):
        self.harness_err.append([what, self.opi, detail])

    # -- probes -------------------------------------------------------------------
    def sel_env(self):
        sysv = self.sim.v["sys"]
        env = dict(sysv.mod.__dict__)
        env.update(sysv.inst)
        import types

        env["box"] = types.SimpleNamespace(**sysv.inst)  # dotted attribute paths: box.k1.meth
        import ptera.tools as tools

        for name in ("every", "between", "lt", "gt", "lte", "gte", "throttle"):
            env.setdefault(name, getattr(tools, name))
        env.update(sysv.tooled_names if hasattr(sysv, "tooled_names") else {})
        return env

    def op_mk(self, op):
        import ptera

        if op["id"] in self.probes:
            return "dup"
        rec = ProbeRec(op)
        env = self.sel_env()
        try:
            for sl in op["sels"]:
                for lv in sl["levels"]:
                    if lv.get("ref"):
                        # select through the absolute reference string of that very function
                        f = self.sim.raw_function(self.sim.v["sys"], lv["fn"])
                        lv["recv_path"] = ptera.refstring(f)
                        self.sim.reach("probe_by_reference")
        except Exception as e:
            self.violate("C14.resolves", {"op": "refstring", "fn": lv["fn"], "error": canon(e)})
            rec.dead = True
            rec.strs = []
            self.probes[op["id"]] = rec
            return "refstring-failed"
        strs = [msel.render(s, style=op.get("style", 0)) for s in op["sels"]]
        rec.strs = strs
        kind = op.get("kind", "probe")
        try:
            if kind in ("probe", "global"):
                rec.obj = ptera.probing(
                    *strs,
                    env=env,
                    raw=op.get("raw", False),
                    probe_type=op.get("ptype"),
                )
            elif kind == "overridable":
                rec.obj = ptera.probing(*strs, env=env, overridable=True)
                how = op["how"]
                fas = op["sels"][0]["focus"].get("as") or op["sels"][0]["focus"]["var"]
                if op.get("filtered"):
                    # the conditional form users write: a filter in front of override();
                    # a declined binding never reaches the override subscriber at all
                    from ptera.utils import ABSENT

                    rec.obj.filter(
                        lambda d, how=how, fas=fas: apply_override(how, d.get(fas), d, real=True) is not ABSENT
                    ).override(lambda d, how=how, fas=fas: apply_override(how, d.get(fas), d, real=True))
                else:
                    rec.obj.override(lambda d, how=how, fas=fas: apply_override(how, d.get(fas), d, real=True))
            elif kind in ("tweak", "rewrite"):
                from ptera.selector import select

                if op["sels"][0]["levels"][-1]["fn"] not in self.tooled_inplace:
                    # overlays act on tooled functions only; without the tool
                    # operation (e.g. dropped by the minimiser) this is a no-op
                    rec.dead = True
                    rec.strs = strs
                    self.probes[op["id"]] = rec
                    return "noop-untooled"
                rec.obj = None
                sel = select(strs[0], env=env)
                how = op["how"]
                fas = op["sels"][0]["focus"].get("as") or op["sels"][0]["focus"]["var"]
                base = self.probes.get(op.get("base"))
                if base is not None and (base.dead or getattr(base, "overlay", None) is None):
                    base = None
                # derived overlays (base.tweaking(...) / base.rewriting(...)) carry the rules of the
                # overlay they were derived from -- the very same rule objects -- plus their own
                maker = base.overlay if base is not None else ptera.Overlay
                if base is not None:
                    self.sim.reach("derived_overlay")
                rec.rules = (base.rules if base is not None else []) + [(op["sels"][0], how)]
                more = {}
                for extra in op.get("more", []) if kind == "tweak" else []:
                    # one tweaking() call with several entries: each selector gets its own value
                    more[select(msel.render(extra["sel"], style=op.get("style", 0)), env=env)] = extra["how"][1]
                    rec.rules.append((extra["sel"], extra["how"]))
                if kind == "tweak":
                    rec.overlay = maker.tweaking({sel: how[1], **more})
                else:
                    rec.overlay = maker.rewriting(
                        {sel: (lambda d, how=how, fas=fas: apply_override(how, d.get(fas), d, real=True))}
                    )
            elif kind == "overlay":
                rec.obj = None
                rec.overlay = self._mk_overlay(op, strs, env, rec)
            else:
                raise HarnessError(kind)
        except Exception as e:
            rec.enter_error = canon(e)
            rec.dead = True
            self.probes[op["id"]] = rec
            return ["mk-error", canon(e)]

        def on_next(data, rec=rec):
            if rec.spec.get("raw") and self.sc.get("late_read", True):
                # raw mode hands out Capture objects: read them only when the
                # operation is over, as a consumer that keeps them would
                rec.pending.append(data)
                return
            ev = canon_event(data)
            rec.got.append(ev)
            rec.got_op.append(self.opi)
            seen = {k: v for k, v in ev.items() if k not in rec.spec.get("absent_ok", ())}
            if has_absent(list(seen.values())) or any(
                isinstance(v, dict) and has_absent(v.get("values", [])) for v in seen.values()
            ):
                self.violate("C16.no_absent", {"probe": rec.id, "sel": rec.strs, "event": ev})

        if rec.obj is not None:
            rec.obj.subscribe(on_next)
        self.probes[op["id"]] = rec
        return "ok"

    def _mk_overlay(self, op, strs, env, rec):
        import ptera
        from ptera.selector import select

        ol = ptera.Overlay()
        for s in strs:
            sel = select(s, env=env)

            def listener(args, rec=rec):
                if op.get("ptype") == "total":
                    # all=True hands out {capture: [values]}
                    rec.got.append({k: {"values": [canon(x) for x in v]} for k, v in args.items()})
                else:
                    rec.got.append(canon_event(args))
                rec.got_op.append(self.opi)

            if op.get("ptype") == "total":
                ol.register(sel, listener, all=True, immediate=False)
            else:
                ol.register(sel, listener)
        return ol

    def op_enter(self, op):
        rec = self.probes.get(op["id"])
        if rec is None or rec.dead or rec.active:
            return "noop"
        if rec.entered and not op.get("force"):
            return "noop"
        target = rec.obj if rec.obj is not None else rec.overlay
        try:
            target.__enter__()
        except BaseException as e:
            rec.enter_error = canon(e)
            rec.dead = True
            if rec.spec.get("expect_refusal") or rec.spec.get("may_refuse"):
                self.sim.reach("activation_refused")
                return "refused"
            return ["enter-error", canon(e)]
        if rec.spec.get("expect_refusal"):
            self.violate("C05.refused_activation", {"probe": rec.id, "sel": rec.strs, "accepted": True})
        rec.active = True
        rec.entered = True
        rec.changes.append(self.opi)
        self.order.append(rec.id)
        return "ok"

    def op_exit(self, op):
        rec = self.probes.get(op["id"])
        if rec is not None and op.get("again") and rec.entered and not rec.active and not rec.dead:
            # a second deactivation of a probe that is already over: it must change
            # nothing (whether it is silently accepted or refused)
            self.sim.reach("deactivated_twice")
            target = rec.obj if rec.obj is not None else None
            if target is None:
                return "noop"
            mine = [st for st in rec.stages if not st.get("post")]
            before = [list(st["next"]) for st in mine], [st["completed"] for st in mine]
            try:
                target.__exit__(None, None, None)
            except Exception:
                pass
            after = [list(st["next"]) for st in mine], [st["completed"] for st in mine]
            if before != after:
                self.violate("C17.completed_once", {"probe": rec.id, "second deactivation changed the stages": [before, after]})
            return "again"
        if (rec is not None and op.get("early") and not rec.entered and not rec.dead and rec.obj is not None
                and rec.spec.get("kind", "probe") != "overlay"):
            # deactivated before any activation: it is not active, so nothing completes
            self.sim.reach("deactivated_before_activation")
            mine = [st for st in rec.stages if not st.get("post")]
            before = [list(st["next"]) for st in mine], [st["completed"] for st in mine]
            try:
                rec.obj.__exit__(None, None, None)
            except Exception:
                pass
            after = [list(st["next"]) for st in mine], [st["completed"] for st in mine]
            if before != after:
                self.violate("C17.completed_once", {"probe": rec.id, "deactivation before activation changed the stages": [before, after]})
            return "early"
        if rec is None or not rec.active:
            return "noop"
        target = rec.obj if rec.obj is not None else rec.overlay
        try:
            if op.get("exc"):
                try:
                    raise RuntimeError("block left by exception")
                except RuntimeError as e:
                    target.__exit__(type(e), e, e.__traceback__)
            else:
                target.__exit__(None, None, None)
            res = "ok"
        except BaseException as e:
            res = ["exit-error", canon(e)]
        rec.active = False
        rec.changes.append(self.opi)
        self.order.remove(rec.id)
        self.on_deactivated(rec, res)
        if isinstance(res, list) and rec.expect_exit_error:
            return "ok-expected-error"
        return res

    def on_deactivated(self, rec, res):
        """C17: completion exactly once, reductions publish exactly one value
        computed from precisely the delivered events."""
        rec.expect_exit_error = False
        for st in rec.stages:
            if not st.get("post"):
                st["final"] = [list(st["next"]), st["completed"], list(st["errors"])]
        relaxed = any(st.get("raised") for st in rec.stages)
        for st in rec.stages:
            if st.get("post"):
                continue
            if relaxed:
                # after an injected subscriber failure this probe's deliveries are
                # unspecified (the failure aborts _push); completion at most once still holds
                if st["completed"] > 1:
                    self.violate("C17.completed_once", {"probe": rec.id, "stage": st["kind"], "completed": st["completed"]})
                if st["kind"] in ("min", "max", "first", "last", "sum") and not st["next"]:
                    # how many events reached this reduction before the failure is unspecified:
                    # it may well be empty, and then deactivation reports that
                    rec.expect_exit_error = True
                continue
            vals = [d[st["cap"]] for _, d in rec.exp_all[st["since"]:] if st["cap"] in d]
            k = st["kind"]
            want_next, want_err = None, False
            if k == "whole":
                want_next = [1] * len(rec.exp_all[st["since"]:])
            elif k == "accum":
                want_next = vals
            elif k == "map":
                want_next = [v + 1 for v in vals]
            elif k == "count":
                want_next = [len(vals)]
            elif k == "sum":
                want_next = [sum(vals)] if vals else None
                want_err = not vals
            elif k in ("min", "max", "first", "last"):
                if vals:
                    want_next = [{"min": min, "max": max, "first": lambda v: v[0], "last": lambda v: v[-1]}[k](vals)]
                else:
                    want_err = True
            if want_err:
                rec.expect_exit_error = True
                self.sim.reach("completion_raises")
                # an empty non-neutral reduction: error instead of a value; no value published
                if st["next"]:
                    self.violate("C17.reduction", {"probe": rec.id, "stage": k, "empty stream but published": st["next"]})
                continue
            if st["next"] != want_next:
                self.violate("C17.reduction", {"probe": rec.id, "stage": k, "cap": st["cap"], "expected": want_next, "got": st["next"]})
            if not st.get("bare") and (st["completed"] != 1 or st["errors"]):
                self.violate("C17.completed_once", {"probe": rec.id, "stage": k, "completed": st["completed"], "errors": st["errors"]})

    def op_tool(self, op):
        import ptera

        sysv = self.sim.v["sys"]
        f = self.sim.raw_function(sysv, op["fn"])
        if any(lv["fn"] == op["fn"] for pid in self.order if self.probes[pid].obj is not None
               for sel in self.probes[pid].spec["sels"] for lv in sel["levels"]):
            # tooling a function while a probe is active on it is not part of any generated history
            # (what it should mean is not stated anywhere); the minimiser can get here by dropping a
            # deactivation, and must not
            return "noop-probe-active"
        how = op.get("how")
        holder = sysv.mod
        for part in op["fn"].split(".")[:-1]:
            holder = getattr(holder, part, None)
        leaf = op["fn"].split(".")[-1]
        if how == "decorate" and (getattr(holder, "__dict__", {}).get(leaf) is not f or f.__qualname__ != op["fn"]):
            # only a plain def (at the top level, or in a class body) can have been written with
            # '@tooled' above it here
            how = "inplace"
        try:
            if how == "inplace":
                ptera.tooled.inplace(f)
                self.sim.orig_code[op["fn"]] = f.__code__
                self.tooled_inplace.add(op["fn"])
            elif how == "decorate":
                # what '@tooled' above the def does: the name is bound to the tooled copy, the
                # function the def created is left to itself
                new = ptera.tooled(f)
                setattr(holder, leaf, new)
                self.sim.orig_code[op["fn"]] = new.__code__
                self.tooled_inplace.add(op["fn"])
            else:
                sysv.tooled[op["fn"]] = ptera.tooled(f)
        except BaseException as e:
            return ["tool-error", canon(e)]
        return "ok"

    # -- expectations ---------------------------------------------------------------
    def expected_for(self, rec, lo, hi, quiet=False):
        """[(event index, canon event)] for one probe over trace[lo:hi]."""
        if quiet:
            keep, self.sim.reach = self.sim.reach, (lambda *a, **k: None)
            try:
                return self.expected_for(rec, lo, hi)
            finally:
                self.sim.reach = keep
        exp = []
        for sel in rec.spec["sels"]:
            mode = sel.get("mode") or ("immediate" if sel.get("focus") else "total")
            if sel.get("wrap"):
                for i, d in msel.wrapper(sel, self.sim.tr, lo, hi):
                    exp.append((i, d))
                    self.sim.reach("wrapper_event")
            elif mode == "immediate":
                imm = msel.immediate(sel, self.sim.tr, lo, hi, recv_ok=self._recv_ok(sel))
                seen_idx = {}
                for i, d in imm:
                    seen_idx[i] = seen_idx.get(i, 0) + 1
                if any(n > 1 for n in seen_idx.values()):
                    self.sim.reach("binding_with_several_embeddings")
                for i, d in imm:
                    for lv in sel["levels"]:
                        if lv.get("recv"):
                            # the event reports the receiver under the receiver parameter's name
                            d[lv["recv_param"]] = ["inst", lv["recv_cls"], lv["recv"]]
                    if rec.spec.get("raw"):
                        d = {k: {"values": [v]} for k, v in d.items()}
                    exp.append((i, d))
            elif sel.get("focus"):
                for i, d in msel.total_focus(sel, self.sim.tr, lo, hi):
                    d = {k: {"values": v} for k, v in d.items()}
                    exp.append((i, d))
                    self.sim.reach("forced_total_record")
            else:
                for i, d in msel.total(sel, self.sim.tr, lo, hi):
                    d = {k: {"values": v} for k, v in d.items()}
                    exp.append((i, d))
                    self.sim.reach("total_record")
                    if any(len(v["values"]) > 1 for v in d.values()):
                        self.sim.reach("total_record_multi_valued")
        exp.sort(key=lambda t: t[0])
        return exp

    def inflight_unspecified(self, rec, lo, hi):
        """(indexes, focus values) of trace events in [lo, hi) that belong to the
        subtree of an activation (a generator) that was already in flight when
        this probe's activation state last changed: which handlers such an
        activation carries is fixed when it starts, the statements do not say
        what a probe entered or left meanwhile receives from it."""
        tr = self.sim.tr
        idx, vals = set(), []
        if not rec.changes:
            return idx, vals
        focus = {}
        for sel in rec.spec["sels"]:
            if sel.get("focus"):
                focus[(sel["levels"][-1]["fn"], sel["focus"]["var"])] = True
        single = (not rec.active) or all(len(sel["levels"]) == 1 for sel in rec.spec["sels"])
        for ev in tr.events[lo:hi]:
            a = tr.acts[ev["act"]]
            root = a
            while root.parent is not None:
                root = root.parent
            t0 = self._enter_index(root.id)  # operation index
            if any(t0 < c <= self.opi for c in rec.changes):
                if single and all(c < self._enter_index(a.id) for c in rec.changes if c <= self.opi):
                    # ... but a call that *begins* after the probe's last change, made by the
                    # generator once it runs again, is a call like any other: a probe that is
                    # active now hears from it (as far as its selector names nothing of what was
                    # already under way), one that is over does not
                    self.sim.reach("call_begun_by_resumed_generator_judged")
                    continue
                for var, val in msel.event_vars(ev):
                    if (ev["fn"], var) in focus:
                        idx.add(ev["i"])
                        vals.append(val)
        return idx, vals

    def _enter_index(self, act_id):
        """Index of the operation during which this activation started (for a
        top-level generator: the operation that created the generator object --
        it runs the code its function had at that moment)."""
        return min(self._enter_cache.get(act_id, self.opi), self._created_at.get(act_id, 1 << 60))

    def note_generator(self, op, n_acts_before):
        """Remember when a top-level generator object was created, and which
        activation it became at its first resumption."""
        tr = self.sim.tr
        for aid in range(n_acts_before + 1, tr.n + 1):
            self._enter_cache[aid] = self.opi
        if op["op"] == "gen_new":
            self._gen_created[op["gen"]] = [self.opi, op["fn"]]
            self._gen_fn[op["gen"]] = op["fn"]
        elif op["op"].startswith("gen_") and op.get("gen") in self._gen_created:
            created, fn = self._gen_created[op["gen"]]
            for aid in range(n_acts_before + 1, tr.n + 1):
                a = tr.acts[aid]
                if a.parent is None and a.fn == fn:
                    self._created_at[aid] = created
                    del self._gen_created[op["gen"]]
                    break

    def _recv_ok(self, sel):
        """Receiver constraint of object-bound selector levels (C13): the
        activation's receiver must *be* the probed instance."""
        if not any(lv.get("recv") for lv in sel["levels"]):
            return None
        tr = self.sim.tr

        def recv_of(act_id):
            if act_id not in self._recv_cache:
                lab = None
                for ev in tr.events:
                    if ev["act"] == act_id and ev["k"] == "bind":
                        v = ev["val"]
                        if isinstance(v, list) and v and v[0] == "inst":
                            lab = v[2]
                        break
                self._recv_cache[act_id] = lab
            return self._recv_cache[act_id]

        def ok(j, act_id):
            want = sel["levels"][j].get("recv")
            return want is None or recv_of(act_id) == want

        return ok

    def compare_stream(self, inv, rec, exp, got, optional=()):
        """exp: [(idx, ev)], got: [ev]; events of one idx compared as a multiset.  The events of
        an idx in ``optional`` may be missing, in any number."""
        if rec.spec.get("raw") or any(
            (s.get("mode") or ("immediate" if s.get("focus") else "total")) == "total"
            for s in rec.spec["sels"]
        ):
            got = [
                {
                    k: ({"values": v["values"]} if isinstance(v, dict) and "values" in v else v)
                    for k, v in ev.items()
                }
                for ev in got
            ]
        groups = []
        for i, d in exp:
            if groups and groups[-1][0] == i:
                groups[-1][1].append(d)
            else:
                groups.append((i, [d]))
        if optional:
            # events of an optional index may be missing in any number: try every split
            keys = [_key(g) for g in got]

            def fits(gi, pos):
                if gi == len(groups):
                    return pos == len(keys)
                i, ds = groups[gi]
                want = sorted(map(_key, ds))
                if i not in optional:
                    return sorted(keys[pos:pos + len(ds)]) == want and len(keys) - pos >= len(ds) and fits(gi + 1, pos + len(ds))
                left = list(want)
                n = 0
                if fits(gi + 1, pos):
                    return True
                while pos + n < len(keys) and keys[pos + n] in left:
                    left.remove(keys[pos + n])
                    n += 1
                    if fits(gi + 1, pos + n):
                        return True
                return False

            if not fits(0, 0):
                self.violate(inv, {"probe": rec.id, "sel": rec.strs, "expected": [d for _, d in exp], "got": got,
                                   "optional (the failure struck there)": [d for i, d in exp if i in optional]})
                return False
            return True
        pos = 0
        for i, ds in groups:
            chunk = got[pos : pos + len(ds)]
            pos += len(ds)
            if sorted(map(_key, chunk)) != sorted(map(_key, ds)):
                self.violate(
                    inv,
                    {
                        "probe": rec.id,
                        "sel": rec.strs,
                        "expected": [d for _, d in exp],
                        "got": got,
                    },
                )
                return False
        if pos != len(got):
            self.violate(
                inv,
                {
                    "probe": rec.id,
                    "sel": rec.strs,
                    "expected": [d for _, d in exp],
                    "got": got,
                    "extra": got[pos:],
                },
            )
            return False
        return True

    # -- code-running operations ------------------------------------------------
    def run_code(self, op, thunk_of):
        sim = self.sim
        tape = op.get("tape", [])
        faults = op.get("faults", {})
        box = op.get("box")
        marks = {rec.id: len(rec.got) for rec in self.probes.values()}
        lo = len(sim.tr.events)
        res = {}
        order = [vn for vn in ("ref", "trc", "sys") if vn in sim.v]
        n_acts_before = sim.tr.n
        sim.tr.hook = self.bind_hook if self.overriding_active() else None
        self.fail_idx_now = []
        self.mid_touched = set()
        during = op.get("during")
        if during:
            # probes activated / deactivated from inside the running call, at its k-th interaction
            # with the environment (in the instrumented twin; the model takes note of who changed)
            fired = []

            def in_mid_call(k, during=during):
                if k == during["at"] and not fired:
                    fired.append(k)
                    self.sim.reach("probe_changed_in_mid_call")
                    for sub in during["ops"]:
                        if sub["op"] in ("enter", "exit"):
                            self.mid_touched.add(sub["id"])
                            self.step(sub)

            sim.on_step = {"sys": in_mid_call}
        else:
            sim.on_step = {}
        sim.tr.after = self.after_event if (self.exact_mode() and self.pending_failures()) else None
        sim.tr.decl_attempt = self.decl_attempt if sim.tr.after is not None else None
        for k, vn in enumerate(order):
            # distinct value ranges are not needed: the twins never see each other
            res[vn] = sim.run(vn, thunk_of(op), tape, faults, box=box)
        if op["op"] in ("gen_drop", "gc"):
            # one global collection step for all twins (S3): each twin's
            # finalisers log into its own persistent Env / the tracer / the probes
            gc.collect()
            if op["op"] == "gc":
                sim.reach("gc_collect")
        for vn in order:
            sim.finish(vn, res[vn])
        for rec in self.probes.values():
            for data in rec.pending:
                ev = canon_event(data)
                rec.got.append(ev)
                rec.got_op.append(self.opi)
                if any(isinstance(v, dict) and has_absent(v.get("values", [])) for v in ev.values()):
                    self.violate("C16.no_absent", {"probe": rec.id, "sel": rec.strs, "event": ev})
            rec.pending.clear()
        hi = len(sim.tr.events)
        self.note_generator(op, n_acts_before)
        ob = {
            "op": op,
            "struck": bool(self.fail_idx_now),
            "lo": lo,
            "hi": hi,
            "res": {vn: {"out": r["out"], "log": r["log"]} for vn, r in res.items()},
            "got": {
                rec.id: rec.got[marks.get(rec.id, 0):] for rec in self.probes.values()
            },
        }
        return ob, res

    # -- injected subscriber failures, exactly (scenario key "exact_failures") -----------------
    EXACT_KINDS = ("whole", "accum", "map")

    def exact_mode(self):
        """Subscriber failures are modelled exactly when the history has at most one failing /
        re-entering subscriber: with two of them, whether the second was served the event at which
        the first struck is not stated, so its own count could not be followed."""
        if not self.sc.get("exact_failures"):
            return False
        n = sum(1 for rec in self.probes.values() for st in rec.stages
                if (st.get("raises") is not None or st.get("reenter")) and not st.get("post"))
        return n <= 1

    def pending_failures(self):
        return [(rec, st) for rec in self.probes.values() if rec.active
                for st in rec.stages
                if (st.get("raises") is not None or st.get("reenter")) and st["kind"] in self.EXACT_KINDS
                and not st.get("post") and not st.get("model_fired")]

    def after_event(self, ev):
        """Called by the tracer after each event of the traced twin: if the k-th delivery to a
        failing subscriber falls on this event, the failure surfaces here -- in the model exactly
        as in the probed program (the exception comes out of the event's delivery)."""
        i = ev["i"]
        for rec, st in self.pending_failures():
            exp = self.expected_for(rec, i, i + 1, quiet=True)
            if st["kind"] != "whole":
                exp = [e for e in exp if st["cap"] in e[1]]
            if not exp:
                continue
            before = st.get("model_seen", 0)
            st["model_seen"] = before + len(exp)
            if st.get("reenter"):
                if before < st["reenter"]["at"] <= before + len(exp):
                    # the subscriber calls the program again, from inside this delivery
                    st["model_fired"] = True
                    self.sim.reach("subscriber_reentry_modelled")
                    trcv = self.sim.v["trc"]
                    self.sim.call_thunk(st["reenter"]["call"])(trcv, trcv.env)
                continue
            if before < st["raises"] <= before + len(exp):
                st["model_fired"] = True
                self.sim.reach("subscriber_failure_modelled")
                if rec.spec.get("kind") == "overridable" and ev["k"] == "bind" and self.sim.tr.events[-1] is ev:
                    # overriders are consulted before the binding is reported to anybody else: a
                    # failure in an overrider's pipeline means the binding was never reported
                    self.sim.tr.events.pop()
                    self.sim.tr.raw.pop()
                    self.fail_idx_now.append(-1)
                else:
                    self.fail_idx_now.append(i)
                raise RuntimeError("subscriber failure injected")

    def decl_attempt(self, fn, var, act):
        """A declaration nobody supplies: an overridable probe aimed at it has still handed the
        (empty) binding to its pipeline once -- a failing subscriber of it may strike there."""
        for rec, st in self.pending_failures():
            if rec.spec.get("kind") != "overridable":
                continue
            sel = rec.spec["sels"][0]
            if sel["levels"][-1]["fn"] != fn or sel["focus"]["var"] != var or len(sel["levels"]) != 1:
                continue
            if st["kind"] != "whole" and st["cap"] != (sel["focus"].get("as") or var):
                continue
            before = st.get("model_seen", 0)
            st["model_seen"] = before + 1
            if st["raises"] == before + 1:
                st["model_fired"] = True
                self.fail_idx_now.append(-1)
                self.sim.reach("subscriber_failure_modelled")
                raise RuntimeError("subscriber failure injected")

    def decl_hook(self, fn, var, act, tracer):
        """C16: a declared-only variable is supplied by the most recently
        activated never-declining overrider aimed at it, if any."""
        from .tracer import NOVALUE

        val = NOVALUE
        for pid in self.order:
            rec = self.probes[pid]
            how = rec.spec.get("how")
            if how and how[0] in ("const", "ctx_mod3_const"):
                # (one per way the overrider's chain matches the live stack, as for any binding)
                for sel, how_, emb, stack in self._interceptions(rec, fn, var, act, tracer):
                    ctx = {}
                    for j, idx in enumerate(emb):
                        alat = self._latest.get(stack[idx].id, {})
                        for cap in sel["levels"][j].get("caps", []):
                            if cap["var"] in alat:
                                ctx[cap.get("as") or cap["var"]] = alat[cap["var"]]
                    r = apply_override(how_, None, ctx)
                    if r is not DECLINE:
                        val = r
        if val is NOVALUE:
            self.sim.reach("declared_not_supplied")
        else:
            self.sim.reach("declared_supplied")
            self._latest.setdefault(act.id, {})[var] = val
        return val

    def compare_decl(self, op, r):
        """C16 verdict for one call: model (traced twin with decl hook) vs ptera."""
        m, s_ = r["trc"], r["sys"]
        if not self.instrumented(op.get("fn") or self._gen_fn.get(op.get("gen"))):
            # nothing of ptera is involved in this call: plain Python decides
            self.sim.reach("declaration_in_uninstrumented_function")
            return

        def same_names(x):
            # the model's stand-in for ptera's name error, as seen by the program itself: context
            # managers / handlers log the class name of what passes through, and a handler may bind
            # the exception and hand it on (``except Exception as e: use(e)``)
            if isinstance(x, list):
                if len(x) >= 3 and x[0] == "exc" and x[1] == "ModelNameError" and isinstance(x[2], list):
                    return ["exc", "NameError*", x[2][1], x[2][0]]
                if len(x) >= 4 and x[0] == "exc" and x[1] == "PteraNameError":
                    return ["exc", "NameError*", x[2], x[3]]
                return [same_names(y) for y in x]
            if isinstance(x, dict):
                return {k: same_names(v) for k, v in x.items()}
            if x in ("ModelNameError", "PteraNameError"):
                return "NameError*"
            return x

        m = dict(m, log=same_names(m["log"]))
        s_ = dict(s_, log=same_names(s_["log"]))
        mo, so = m["out"], s_["out"]
        if mo[0] == "exc" and mo[1][1] == "ModelNameError":
            fn, var = mo[1][2]
            ok = (
                so[0] == "exc"
                and so[1][1] == "PteraNameError"
                and so[1][2] == var
                and so[1][3] == fn
                and so[1][4] != "info-failed"
                and so[1][5] == "body"
                and s_["log"] == m["log"]
            )
            if ok:
                want = self.sim.fnir[fn]
                ann = [st for st in _walk_stmts(want["body"]) if st[0] == "ann" and st[1] == var][0][2]
                got_ann = so[1][4]
                if ann == "int":
                    ok = got_ann == "int"
                else:
                    tags = sorted(t.strip().lstrip("@") for t in ann.strip('"').split("&"))
                    ok = all(f"ptera.tag.{t}" in got_ann for t in tags)
            if not ok:
                self.violate("C16.name_error", {"op": op, "model": m, "sys": s_})
            return
        if mo[0] == "exc" and mo[1][1] in ("NameError", "UnboundLocalError"):
            self.sim.reach("undefined_name_used")
            ok = so[0] == "exc" and so[1][1] in ("NameError", "UnboundLocalError", "PteraNameError") and s_["log"] == m["log"]
            if not ok:
                self.violate("C16.name_error_at_use", {"op": op, "model": m, "sys": s_})
            return
        if so != mo or s_["log"] != m["log"]:
            self.violate("C16.supplied", {"op": op, "model": m, "sys": s_})

    def closure_override(self, op):
        """An active, never-declining overrider aimed at a closure variable of the
        function this operation calls directly."""
        if op["op"] != "call":
            return None
        q = op["fn"]
        if q.split(".")[0] in self.sim.v["sys"].inst:
            return None
        fnir = self.sim.fnir.get(q)
        if not fnir:
            return None
        for pid in self.order:
            rec = self.probes[pid]
            how = rec.spec.get("how")
            if how and how[0] == "const":
                sel = rec.spec["sels"][0]
                if sel["levels"][-1]["fn"] == q and sel["focus"]["var"] in fnir.get("free", ()):
                    return [pid, rec.strs]
        return None

    def bind_hook(self, fn, var, value, act, tracer):
        """M-py's definition of substitution: the overriders that are active, in
        activation order, each seeing the original tentative value and the
        latest (already substituted) context of this activation; the last one
        that does not decline wins."""
        lat = self._latest.setdefault(act.id, {})
        new = value
        for pid in self.order:
            rec = self.probes[pid]
            if not rec.spec.get("how"):
                continue
            for sel, how, emb, stack in self._interceptions(rec, fn, var, act, tracer):
                ctx = {}
                for j, idx in enumerate(emb):
                    alat = self._latest.get(stack[idx].id, {})
                    for cap in sel["levels"][j].get("caps", []):
                        if cap["var"] in alat:
                            ctx[cap.get("as") or cap["var"]] = alat[cap["var"]]
                d = {k: canon(v) for k, v in ctx.items()}
                d[sel["focus"].get("as") or var] = canon(value)
                if not msel._conds_hold(sel, d):
                    self.sim.reach("override_condition_false")
                    continue
                r = apply_override(how, value, ctx)
                self.sim.reach("override_applied" if r is not DECLINE else "override_declined")
                if r is not DECLINE:
                    new = r
        lat[var] = new
        return new

    def _interceptions(self, rec, fn, var, act, tracer):
        """(selector, how, embedding, stack) for every rule of this overrider aimed at this binding,
        one per way its chain matches the live stack, in order."""
        for sel, how in (rec.rules or [(rec.spec["sels"][0], rec.spec["how"])]):
            if sel["levels"][-1]["fn"] != fn or sel["focus"]["var"] != var:
                continue
            stack = list(tracer.stack)
            if not stack or stack[-1] is not act:
                stack = [a for a in stack if a is not act] + [act]
            level_fns = [lv["fn"] for lv in sel["levels"]]
            for emb in msel._embeddings(level_fns, [a.fn for a in stack]):
                yield sel, how, emb, stack

    def check_model(self, ob):
        r = ob["res"]
        if self.fail_idx_now:
            # from here on the untouched twin has a different past (the failure happened to the
            # other two only): closure cells, globals, objects may differ for good
            self.ref_diverged = True
        if "ref" in r and "trc" in r and not self.overriding_active() and not getattr(self, "ref_diverged", False):
            if r["ref"]["out"] != r["trc"]["out"] or r["ref"]["log"] != r["trc"]["log"]:
                self.herr(
                    "model-vs-reference",
                    {"ref": r["ref"], "trc": r["trc"]},
                )
                return False
        return True

    def instrumented(self, fn):
        """Is anything of ptera involved when ``fn`` is called now: tooled in place / a tooled
        copy is what gets called, or an active probe names it."""
        if fn in self.tooled_inplace or fn in getattr(self.sim.v["sys"], "tooled", {}):
            return True
        for pid in self.order:
            rec = self.probes[pid]
            if rec.obj is None:
                continue
            for sel in rec.spec["sels"]:
                for lv in sel["levels"]:
                    if lv["fn"] == fn or any(sb["fn"] == fn for sb in msel.walk_sibs(lv)):
                        return True
        return False

    def overlay_reaches(self, rec, fn):
        if fn in self.tooled_inplace or fn in getattr(self.sim.v["sys"], "tooled", {}):
            return True
        for pid in self.order:
            other = self.probes[pid]
            if other.obj is None or other.spec.get("kind") == "overlay" or not other.active:
                continue
            for sel in other.spec["sels"]:
                for lv in sel["levels"]:
                    if lv["fn"] == fn or any(sb["fn"] == fn for sb in msel.walk_sibs(lv)):
                        return True
        return False

    def overriding_active(self):
        return any(self.probes[p].spec.get("how") for p in self.order)

    # -- main loop ----------------------------------------------------------------
    def step(self, op):
        kind = op["op"]
        if kind == "mk":
            return self.op_mk(op)
        if kind == "enter":
            return self.op_enter(op)
        if kind == "exit":
            return self.op_exit(op)
        if kind == "tool":
            return self.op_tool(op)
        if kind == "gc":
            self.sim.reach("gc_collect")
            return gc.collect()
        if kind == "clock":
            SEAMS["clock"].mode = op["mode"]
            return "ok"
        if kind == "setglobal":
            # define / delete a module global of the actor module between calls, in every twin
            for v in self.sim.v.values():
                if op.get("delete"):
                    v.mod.__dict__.pop(op["name"], None)
                else:
                    v.mod.__dict__[op["name"]] = op.get("value", 7)
            self.sim.reach("global_deleted" if op.get("delete") else "global_defined")
            return "ok"
        if kind == "stage":
            return self.op_stage(op)
        if kind == "reenter":
            return self.op_reenter(op)
        if kind == "exit_hook":
            return self.op_exit_hook(op)
        return None

    # -- pipeline stages (C17) ---------------------------------------------------
    def op_stage(self, op):
        rec = self.probes.get(op["id"])
        if rec is None or rec.dead or rec.obj is None:
            return "noop"
        post = rec.entered and not rec.active  # attached after deactivation: must stay silent for ever
        st = {
            "kind": op["kind"], "cap": op["cap"], "next": [], "completed": 0,
            "errors": [], "since": len(rec.exp_all), "raises": None if post else op.get("raises"),
            "n_seen": 0, "post": post, "reenter": None if post else op.get("reenter"),
        }
        if post:
            self.sim.reach("stage_attached_after_deactivation")

        def on_next(v, st=st):
            st["n_seen"] += 1
            if op.get("reenter") and st["n_seen"] == op["reenter"]["at"] and not post:
                # a subscriber that calls the probed program again while an event is being delivered
                self.sim.reach("subscriber_reenters")
                sysv = self.sim.v["sys"]
                self.sim.call_thunk(op["reenter"]["call"])(sysv, sysv.env)
            if st["raises"] is not None and st["n_seen"] == st["raises"]:
                st["raised"] = True
                self.sim.reach("handler_raises")
                raise RuntimeError("subscriber failure injected")
            st["next"].append(1 if st["kind"] == "whole" else canon(v))

        def on_error(e, st=st):
            st["errors"].append(canon(e))

        def on_completed(st=st):
            st["completed"] += 1
            if op.get("abort_on_complete") and not st.get("post"):
                # the user's completion handler is interrupted (KeyboardInterrupt / SystemExit):
                # deactivation is aborted by it, but must still have taken the probe out
                st["raised"] = st["raised_seen"] = True
                self.sim.reach("completion_interrupted")
                raise {"kbd": KeyboardInterrupt, "exit": SystemExit}[op["abort_on_complete"]]("injected")

        k = op["kind"]
        # "whole": a subscriber of the probe itself (every event / record, whatever it carries)
        src = rec.obj if k == "whole" else rec.obj["?" + op["cap"]]  # non-strict: other selectors' events lack the key
        try:
            if k == "whole":
                pass
            elif k in ("min", "max", "count", "sum", "last", "first"):
                src = getattr(src, k)()
            elif k == "map":
                src = src.map(lambda v: v + 1)
            elif k == "accum":
                pass
            else:
                raise HarnessError(k)
            if op.get("bare"):
                # the everyday form: probe["x"].min().subscribe(fn) -- no error handler
                st["bare"] = True
                src.subscribe(on_next)
            else:
                src.subscribe(on_next=on_next, on_error=on_error, on_completed=on_completed)
        except Exception as e:
            return ["stage-error", canon(e)]
        rec.stages.append(st)
        return "ok"

    def op_reenter(self, op):
        rec = self.probes.get(op["id"])
        if rec is None or rec.dead or rec.obj is None or not rec.entered:
            return "noop"
        before = self.lifecycle_snapshot()
        try:
            # either spelling: the with-statement protocol or the explicit activate()
            (rec.obj.activate if op.get("how") == "activate" and hasattr(rec.obj, "activate") else rec.obj.__enter__)()
            self.violate("C17.single_activation", {"probe": rec.id, "second activation": "accepted"})
            # the model cannot follow an accepted second activation
            rec.dead = True
            return "accepted"
        except Exception as e:
            after = self.lifecycle_snapshot()
            if before != after:
                self.violate("C17.single_activation", {"probe": rec.id, "refused but state changed": [before, after]})
            self.sim.reach("reenter_refused")
            return ["refused", canon(e)]

    def op_exit_hook(self, op):
        import ptera.probe as pp

        self.sim.reach("exit_hook")
        order = global_probe_list() or []
        try:
            pp._terminate_global_probes()
            res = "ok"
        except BaseException as e:
            # a failing completion is reported by the hook after all probes were handled
            self.sim.reach("exit_hook_error")
            res = ["hook-raised", canon(e)]
        # model: every active probe is deactivated (in the order the hook saw them)
        for obj in order:
            for rec in self.probes.values():
                if rec.obj is obj and rec.active:
                    rec.active = False
                    self.order.remove(rec.id)
                    self.on_deactivated(rec, None)
        return res

    def lifecycle_snapshot(self):
        cs = self.sim.code_state()
        return [
            {q: [d["original"], d["count"], d["caps"]] for q, d in cs.items()},
            len(self.handlers_ids() or []),
            len(global_probe_list() or []),
        ]

    def handlers_ids(self):
        pairs = self.sim.handlers_now()
        if pairs is None:
            return None
        return [id(acc) for _, acc in pairs]

    # -- code ops + invariants -------------------------------------------------
    def op_code(self, op):
        sim = self.sim
        thunk_of = {"call": sim.call_thunk, "gc": sim.gc_thunk}.get(op["op"], sim.gen_thunk)
        ob, res = self.run_code(op, thunk_of)
        self.obs.append(ob)
        ok_model = self.check_model(ob)
        r = ob["res"]
        raised_now = any(
            st.get("raised") and not st.get("raised_seen")
            for rec in self.probes.values() for st in rec.stages
        )
        for rec in self.probes.values():
            for st in rec.stages:
                if st.get("raised"):
                    st["raised_seen"] = True
        # with exact failures the model has been through the same failure: nothing is relaxed, but
        # the untouched twin (which knows no probes) is no reference for this operation
        exact = self.exact_mode()
        optional = set(self.fail_idx_now)
        if msel.SUPERSEDED == "kept":
            # outside the C06 lens: whether a superseded return value is reported is not judged
            optional |= {ev["i"] for ev in self.sim.tr.events[ob["lo"]:ob["hi"]] if ev.get("superseded")}
        ref_skip = raised_now or bool(self.fail_idx_now) or getattr(self, "ref_diverged", False)
        if exact:
            raised_now = False
        # C16.no_absent is checked in every run of every lens
        if any(vn == "sys" for vn, _ in sim.absent_seen):
            self.violate("C16.no_absent", {"op": op, "sys": r.get("sys")})
            sim.absent_seen.clear()
        if ok_model and "ref" in r and "sys" in r and not self.overriding_active() and not ref_skip:
            if r["sys"]["out"] != r["ref"]["out"]:
                self.violate(
                    "C01.same_outcome",
                    {"op": op, "ref": r["ref"]["out"], "sys": r["sys"]["out"],
                     "reflog": r["ref"]["log"], "syslog": r["sys"]["log"]},
                )
            elif r["sys"]["log"] != r["ref"]["log"]:
                self.violate(
                    "C01.same_envlog",
                    {"op": op, "ref": r["ref"]["log"], "sys": r["sys"]["log"]},
                )
        if self.sc.get("c16"):
            if not raised_now:
                self.compare_decl(op, r)
            ok_model = False  # streams are not judged in this lens
            raised_now = True
        closure_ov = None if self.sc.get("c16") else self.closure_override(op)
        if closure_ov:
            self.sim.reach("closure_override_attempt")
            o = r["sys"]["out"]
            if not (o[0] == "exc" and o[1][1] == "OverrideException"):
                self.violate("C04.closure_refused", {"op": op, "overrider": closure_ov, "sys": r["sys"]})
            return o
        if "trc" in r and "sys" in r and self.overriding_active() and not raised_now:
            if r["sys"]["out"] != r["trc"]["out"] or r["sys"]["log"] != r["trc"]["log"]:
                self.violate(
                    self.sc.get("subst_inv", "C04.substitution"),
                    {"op": op, "model": r["trc"], "sys": r["sys"],
                     "overriders": [[p, self.probes[p].strs, self.probes[p].spec.get("how")]
                                    for p in self.order if self.probes[p].spec.get("how")]},
                )
        if ok_model:
            for pid in list(self.probes):
                rec = self.probes[pid]
                got = ob["got"].get(pid, [])
                if self.sc.get("relax_inflight") and (got or rec.stages):
                    uidx, uvals = self.inflight_unspecified(rec, ob["lo"], ob["hi"])
                    if uvals:
                        rec.inflight_seen = True  # its late stages may hear from that generator too
                        self.sim.reach("inflight_generator_events_unspecified", len(uvals))
                        fas = [sl["focus"].get("as") or sl["focus"]["var"] for sl in rec.spec["sels"] if sl.get("focus")]
                        got = [g for g in got if not any(g.get(k) in uvals for k in fas)]
                else:
                    uidx = set()
                if pid in self.mid_touched:
                    # activated / deactivated while this call was under way: what it is owed of this
                    # very call is not stated (the call was entered under other conditions)
                    rec.exp_all.extend((self.opi, d) for d in got)
                    continue
                if rec.active and not rec.spec.get("nojudge"):
                    if raised_now:
                        # an injected subscriber failure aborted the probed call:
                        # deliveries of this operation are unspecified; whatever
                        # arrived is what later reductions must be computed from
                        rec.exp_all.extend((self.opi, d) for d in got)
                        if op["op"] == "call" and any(st.get("raised") for st in rec.stages):
                            self.check_brackets(rec, got, op)
                        continue
                    exp = self.expected_for(rec, ob["lo"], ob["hi"])
                    if rec.spec.get("kind") == "overlay":
                        # an overlay instruments nothing itself: it hears from the functions that are
                        # tooled, or that an active probe happens to have instrumented
                        exp = [(i, d) for i, d in exp if self.overlay_reaches(rec, self.sim.tr.events[i]["fn"])]
                        if not all(self.overlay_reaches(rec, lv["fn"]) for sl in rec.spec["sels"] for lv in sl["levels"]):
                            exp = []  # (a function on its path is not instrumented at all: never matched)
                    if self.sc.get("relax_inflight"):
                        if not uidx:
                            uidx, _ = self.inflight_unspecified(rec, ob["lo"], ob["hi"])
                        exp = [(i, d) for i, d in exp if i not in uidx]
                    if rec.spec.get("count_only"):
                        # an overridable probe is handed the value about to be bound, which another
                        # overrider may replace: how *many* events it gets is what is stated
                        rec.exp_all.extend((self.opi, d) for d in got)
                        n_opt = sum(1 for i, _ in exp if i in optional)
                        if not self.fail_idx_now and not (len(exp) - n_opt <= len(got) <= len(exp)):
                            self.violate(self.stream_inv(rec), {"probe": rec.id, "sel": rec.strs,
                                                                "expected number of events": len(exp), "got": got})
                        continue  # (struck by a failure: an overrider's own event is not in the trace)
                    if optional:
                        # the events of the very binding / exit at which the failure struck: which
                        # probes had been served before it struck is not specified
                        rec.exp_all.extend((self.opi, d) for d in got)
                        self.compare_stream(self.stream_inv(rec), rec, exp, got, optional=optional)
                        continue
                    rec.exp_all.extend((self.opi, d) for _, d in exp)
                    self.compare_stream(self.stream_inv(rec), rec, exp, got)
                elif got and not rec.active:
                    self.violate(
                        "C05.exactly_once",
                        {"probe": pid, "inactive-but-received": got},
                    )
                    self.violate(
                        "C17.silent_outside",
                        {"probe": pid, "inactive-but-received": got},
                    )
                    if str(rec.spec.get("inv", "")).startswith("C09."):
                        # (C09: the handlers of an overlay whose with-block has ended are never
                        # put back in force, for anybody)
                        self.violate(rec.spec["inv"], {"probe": pid, "inactive-but-received": got})
        out = r.get("sys", {}).get("out", ["?"])
        self.sig.add(
            f"{op['op']}:{op.get('fn', op.get('gen'))}:{out[0]}:"
            f"{out[1][1] if out[0] == 'exc' else ''}:{self.active_sig()}"
        )
        return out

    def check_brackets(self, rec, got, op):
        """C06 under a failing subscriber: what the probe with the failing subscriber was handed
        during a call that is over is still properly bracketed -- every delivered entry / iteration
        begin has exactly one exit / iteration end after it.  (Its own events reach ``got`` before
        they reach the failing subscriber; other probes may miss the one event being delivered
        when the failure struck, so only this probe is judged.)"""
        focus_vars = [sl["focus"]["var"] for sl in rec.spec["sels"] if sl.get("focus")]
        # (a variable named by two selectors of the probe is reported twice: only singles are paired)
        have = {v for v in focus_vars if focus_vars.count(v) == 1}
        closing = {}
        for v in have:
            if v == "#enter" and "#exit" in have:
                closing["#exit"] = "#enter"
            elif v.startswith("#loop_") and "#endloop_" + v[6:] in have:
                closing["#endloop_" + v[6:]] = v
        # ``for a, b in``: the begin (and end) events of a and b are sent one after the other, a
        # failure while the first is delivered pre-empts the second: such loops are left out
        multi = set()
        for sl in rec.spec["sels"]:
            fnir = self.sim.fnir.get(sl["levels"][-1]["fn"])
            for st in _walk_stmts(fnir["body"]) if fnir else ():
                if st[0] == "for" and not isinstance(st[1], str):
                    multi.update(u if isinstance(u, str) else "" for u in _flat_targets(st[1]))
        closing = {c: o for c, o in closing.items() if not (o.startswith("#loop_") and o[6:] in multi)}
        opening = set(closing.values())
        if not opening or rec.spec.get("raw"):
            return
        self.sim.reach("brackets_checked_under_failing_subscriber")
        depth = {o: 0 for o in opening}
        for d in got:
            for key in d:
                if key in opening:
                    depth[key] += 1
                elif key in closing:
                    # (the loop variables of one ``for a, b in`` delimit the same region, in no
                    # stated order among themselves: pairs are balanced one by one)
                    # an end without its begin is legitimate here: the failure may strike while the
                    # first begin event of ``for a, b in`` is delivered, the second is then never sent
                    depth[closing[key]] = max(0, depth[closing[key]] - 1)
        left = sorted(o for o, n in depth.items() if n)
        if left:
            self.violate("C06.brackets", {"op": op, "probe": rec.id, "left open": left, "got": [list(x) for x in got]})

    def active_sig(self):
        return ",".join(
            sorted("|".join(self.probes[p].strs) for p in self.order)
        )

    def stream_inv(self, rec):
        return rec.spec.get("inv", "C02.stream")

    def run(self):
        for i, op in enumerate(self.sc["ops"]):
            self.opi = i
            self.sim.opn = i
            kind = op["op"]
            if kind in ("call", "gc") or kind.startswith("gen_"):
                res = self.op_code(op)
            else:
                res = self.step(op)
                if isinstance(res, list) and res and isinstance(res[0], str) and res[0].endswith("-error"):
                    self.on_lifecycle_error(op, res)
            self.after_op(op, res)
            self.ops_done += 1
        return self.result()

    def on_lifecycle_error(self, op, res):
        rec = self.probes.get(op.get("id"))
        if op["op"] in ("enter", "mk") and rec is not None and not rec.spec.get("expect_refusal"):
            self.violate(
                self.sc.get("activation_inv", "C01.instrumentable"),
                {"op": op, "sel": getattr(rec, "strs", None), "error": res},
            )
        elif op["op"] == "tool":
            self.violate("C01.instrumentable", {"op": op, "error": res})
        elif op["op"] == "exit":
            self.violate("C05.exit_clean", {"op": op, "error": res})

    def after_op(self, op, res):
        if op["op"] == "exit":
            self.check_name_errors()
        if self.sc.get("lifecycle", True):
            self.check_lifecycle(op)
        if self.sc.get("check_refs"):
            self.check_refs(op)

    def check_refs(self, op):
        """C14.resolves: every function's reference string resolves to that very
        function, at every point of the history."""
        import ptera
        from ptera.selector import select

        sysv = self.sim.v["sys"]
        for q, fnir in self.sim.funcs:
            f = self.sim.raw_function(sysv, q)
            try:
                ref = ptera.refstring(f)
                got = select(ref + " > #value", env={}).element.name
                ok = got is f
                err = None if ok else f"resolved to {getattr(got, '__qualname__', got)!r}"
            except Exception as e:
                ok, err = False, canon(e)
            mode = SEAMS["clock"].mode
            self.sim.reach(f"resolve_{mode}")
            if self.order:
                self.sim.reach(f"resolve_while_probe_active_{mode}")
            if not ok:
                self.violate(
                    "C14.resolves",
                    {"fn": q, "after": op.get("op"), "clock": mode, "active": self.active_sig(), "error": err},
                )
                return

    def model_counts(self):
        want = {}
        for pid in self.order:
            rec = self.probes[pid]
            if rec.obj is None:
                continue  # overlays do not tool anything
            for sel in rec.spec["sels"]:
                for lv in sel["levels"]:
                    want[lv["fn"]] = want.get(lv["fn"], 0) + 1
                    for sb in msel.walk_sibs(lv):
                        want[sb["fn"]] = want.get(sb["fn"], 0) + 1
        return want

    def check_lifecycle(self, op):
        cs = self.sim.code_state()
        want = self.model_counts()
        # the program's own module: whatever ptera parks there goes under names of its own -- a key
        # that is not a string breaks the program's ``sorted(globals())`` / ``dir(module)``
        odd = [repr(k) for k in vars(self.sim.v["sys"].mod) if not isinstance(k, str)]
        if odd and not getattr(self, "_odd_reported", False):
            self._odd_reported = True
            self.violate("C05.module_namespace", {"after": op.get("op"), "keys that are not strings": odd})
        for q, d in cs.items():
            w = want.get(q, 0)
            if w == 0:
                if not d["original"]:
                    self.violate("C05.original_code", {"fn": q, "after": op.get("op"), "state": d})
                    break
                if d["count"] not in (None, 0) or d["caps"]:
                    self.violate("C05.counters", {"fn": q, "after": op.get("op"), "state": d, "want": 0})
                    break
            elif d["count"] is not None and d["count"] != w:
                self.violate("C05.counters", {"fn": q, "after": op.get("op"), "state": d, "want": w})
                break
        exp = []
        for pid in self.order:
            rec = self.probes[pid]
            ol = getattr(rec.obj, "_ol", None) if rec.obj is not None else rec.overlay
            hs = getattr(ol, "handlers", None)
            if hs is None:
                self.sim.reach("introspection_unavailable:overlay_handlers")
                return
            exp.extend(id(h) for h in hs)
        got = self.handlers_ids()
        if got is not None and sorted(exp) != sorted(got):
            self.violate(
                self.sc.get("handlers_inv", "C05.no_handlers"),
                {"after": op.get("op"), "expected_handlers": len(exp), "installed": len(got),
                 "active": list(self.order)},
            )
        gp = global_probe_list()
        if gp is not None:
            exp_g = sorted(id(self.probes[p].obj) for p in self.order if self.probes[p].obj is not None)
            got_g = sorted(id(x) for x in gp)
            if exp_g != got_g:
                self.violate("C05.global_set", {"after": op.get("op"), "expected": len(exp_g), "got": len(got_g)})

    def check_name_errors(self):
        from . import harness

        for e, c in harness.NAME_ERRORS:
            now = canon(e)
            if now != c:
                self.violate("C16.name_error_info", {"when raised": c, "asked again later": now,
                                                     "active": self.active_sig()})
                harness.NAME_ERRORS.remove((e, c))
                break

    def final_checks(self):
        self.check_name_errors()
        for rec in self.probes.values():
            if rec.active:
                continue
            if not rec.entered:
                # never active (never activated, or its activation was refused): nothing at all
                for st in rec.stages:
                    if st["next"] or st["completed"]:
                        self.violate("C17.silent_outside", {"probe": rec.id, "stage": st["kind"],
                                                            "never active, but received": [st["next"], st["completed"]]})
                continue
            for st in rec.stages:
                # a stage attached after deactivation may be *completed* by a later, redundant
                # deactivate() (an empty reduction then publishes its neutral value or errors);
                # what it must never get is data caused by calls
                if getattr(rec, "inflight_seen", False):
                    continue  # a generator in flight across the deactivation still carries this probe's handlers (unspecified)
                if st.get("post") and st["next"] and not (st["kind"] == "count" and st["next"] == [0]):
                    self.violate(
                        "C17.silent_outside",
                        {"probe": rec.id, "stage": st["kind"], "stage attached after deactivation received": st["next"]},
                    )
                if "final" in st and st["final"] != [st["next"], st["completed"], st["errors"]]:
                    self.violate(
                        "C17.silent_outside",
                        {"probe": rec.id, "stage": st["kind"], "at deactivation": st["final"],
                         "at end": [st["next"], st["completed"], st["errors"]]},
                    )

    def result(self):
        self.final_checks()
        viol = [v for v in self.viol if any(v[0].startswith(j) for j in self.judge)]
        foreign = [v for v in self.viol if not any(v[0].startswith(j) for j in self.judge)]
        from .world import digest

        return {
            # (events of one operation are sorted in the digest: the order of the events of one
            # binding -- e.g. #loop_a / #loop_b of a multi-target loop -- is unspecified and follows
            # the hash seed; the verdict compares them as multisets)
            # (... and which probes were served at the very event an injected subscriber failure
            # struck is unspecified too: the deliveries of such an operation stay out of the digest)
            "oplog": digest([[ob["res"], {} if ob.get("struck") else {k: sorted(v, key=_key) for k, v in ob["got"].items()}]
                             for ob in self.obs]),
            "viol": viol,
            "foreign": [[v[0], v[1]] for v in foreign],
            "herr": self.harness_err,
            "stats": self.sim.stats,
            "sig": sorted(self.sig),
            "events": sum(len(r.got) for r in self.probes.values()),
            "steps": len(self.sim.tr.events),
            "ops": self.ops_done,
        }
