"""./check selftest [--fast]: prove the simulator itself (DESIGN.md 7).

Determinism: for every claimed property, the first N seeded runs are executed
in fresh interpreters under several configurations -- twice with the same
configuration, with 1 / 4 / 16 workers, and under another PYTHONHASHSEED -- and
the per-run event-log digests must be identical everywhere.  A divergence means
a source of nondeterminism is not behind a seam: nothing else can be trusted
until it is fixed (exit 2)."""

import json
import os
import subprocess
import sys
import time

from . import cli, world


def digests(prop, n, jobs, hashseed, seed=0):
    env = dict(os.environ)
    env.pop("PYTHONHASHSEED", None)
    env["VERIF_HASHSEED"] = str(hashseed)
    env["VERIF_SEED"] = str(seed)
    out = subprocess.run(
        [sys.executable, os.path.join(world.VERIF, "check"), prop, "--digests", str(n), "--jobs", str(jobs)],
        capture_output=True, text=True, env=env, timeout=1800,
    ).stdout
    for ln in out.splitlines():
        if ln.startswith("DIGESTS "):
            return json.loads(ln[8:])
    return ["NO-OUTPUT", out[-300:]]


def main(args):
    n = 40 if args.fast else 200
    t0 = time.time()
    bad = 0
    report = {}
    for prop in sorted(cli.LENSES):
        base = digests(prop, n, 16, 0)
        configs = [("again", 16, 0), ("jobs=1", 1, 0), ("jobs=4", 4, 0), ("hashseed=1", 16, 1)]
        if args.fast:
            configs = [("again", 16, 0), ("jobs=4", 4, 0), ("hashseed=1", 16, 1)]
        diffs = {}
        for name, jobs, hs in configs:
            d = digests(prop, n, jobs, hs)
            k = sum(1 for a, b in zip(base, d) if a != b) + abs(len(base) - len(d))
            if k or "ERR" in d:
                diffs[name] = k
        errs = sum(1 for x in base if x == "ERR")
        report[prop] = {"runs": len(base), "errors": errs, "divergent": diffs}
        ok = not diffs and not errs
        bad += 0 if ok else 1
        print(f"selftest {prop}: {len(base)} runs x {len(configs) + 1} configurations: "
              + ("deterministic" if ok else f"DIVERGENT {diffs} errors={errs}"))
    os.makedirs(os.path.join(world.VERIF, "evidence"), exist_ok=True)
    with open(os.path.join(world.VERIF, "evidence", "selftest.json"), "w") as f:
        json.dump({"runs_per_property": n, "wall_s": round(time.time() - t0, 1), "report": report}, f, indent=1)
    if bad:
        print(f"HARNESS-ERROR determinism self-test failed for {bad} properties")
        return 2
    print(f"selftest ok ({time.time() - t0:.0f}s)")
    return 0
