"""Command: /verif/check <Cxx> [--tier quick|thorough] [--replay FILE] [--runs N] [--jobs N]

exit 0  property held on everything explored (KNOWN-FINDING lines allowed)
exit 1  VIOLATION property=<id> replay=<path>   (replayed successfully first)
exit 2  HARNESS-ERROR (never to be read as "held")
"""

import argparse
import atexit
import importlib
import json
import os
import random
import shutil
import subprocess
import sys
import tempfile
import time

from . import world

LENSES = {
    "C01": "c01",
    "C02": "c02",
    "C03": "c03",
    "C04": "c04",
    "C05": "c05",
    "C06": "c06",
    "C07": "c07",
    "C08": "c08",
    "C09": "c09",
    "C12": "c12",
    "C13": "c13",
    "C14": "c14",
    "C16": "c16",
    "C17": "c17",
}


def load_known():
    p = os.path.join(world.VERIF, "known_findings.json")
    if not os.path.exists(p):
        return []
    with open(p) as f:
        return json.load(f)


def make_scratch():
    d = tempfile.mkdtemp(prefix="ptera-sim-")
    os.environ["PTERA_SIM_SCRATCH"] = d
    atexit.register(shutil.rmtree, d, True)
    return d


_LENS = None
_TIER = "quick"
_QUAR = ()


def _run_task(task):
    """Runs in the forked child."""
    lens = _LENS
    if "scenario" in task:
        sc = task["scenario"]
    else:
        rng = random.Random(task["seed"])
        sc = lens.gen(rng, _TIER, _QUAR)
    try:
        res = lens.run(sc)
    finally:
        if sc.get("program") is not None:
            # generated program: its three twin files live only for this run
            from . import harness

            harness.forget_private(sc["prog_name"])
    res["digest"] = world.digest(
        [sc, [v[0] for v in res["viol"]], [h[0] for h in res["herr"]], res["sig"], res["events"],
         res["steps"], res.get("oplog")]
    )
    # the scenario travels back only when somebody will look at it
    if res["viol"] or res["herr"] or task.get("want_scenario") or "scenario" in task:
        res["scenario"] = sc
    return res


def same_failure(res, inv):
    return res.get("ok") and any(v[0] == inv for v in res["res"]["viol"])


def minimise(sc, inv, jobs, budget_s=120):
    """ddmin over the op list, then tape / fault shrinking; a candidate is
    accepted only if the same invariant still fails (DESIGN.md 3.8)."""
    t0 = time.time()

    def fails(cands):
        rs = world.run_many(_run_task, [{"scenario": c} for c in cands], jobs=jobs, timeout=30)
        return [same_failure(r, inv) for r in rs]

    cur = sc
    if "threads" in sc:
        return minimise_threads(sc, inv, jobs, fails, t0, budget_s)
    # 1. ddmin on ops
    n = 2
    while len(cur["ops"]) >= 2 and time.time() - t0 < budget_s:
        ops = cur["ops"]
        chunk = max(1, len(ops) // n)
        cands = []
        for i in range(0, len(ops), chunk):
            cands.append(dict(cur, ops=ops[:i] + ops[i + chunk:]))
        oks = fails(cands)
        for c, ok in zip(cands, oks):
            if ok:
                cur = c
                n = max(n - 1, 2)
                break
        else:
            if chunk == 1:
                break
            n = min(len(ops), n * 2)
    # 2. per-op: drop faults, truncate / zero tapes
    changed = True
    while changed and time.time() - t0 < budget_s:
        changed = False
        cands = []
        for i, op in enumerate(cur["ops"]):
            for k in list(op.get("faults", {})):
                f2 = dict(op["faults"])
                del f2[k]
                cands.append(_with_op(cur, i, dict(op, faults=f2)))
            tp = op.get("tape")
            if tp:
                cands.append(_with_op(cur, i, dict(op, tape=tp[: len(tp) // 2])))
                cands.append(_with_op(cur, i, dict(op, tape=tp[:-1])))
                for j, x in enumerate(tp):
                    if x:
                        t2 = list(tp)
                        t2[j] = 0
                        cands.append(_with_op(cur, i, dict(op, tape=t2)))
            if op.get("op") == "mk" and len(op.get("sels", [])) > 1:
                for j in range(len(op["sels"])):
                    s2 = op["sels"][:j] + op["sels"][j + 1:]
                    cands.append(_with_op(cur, i, dict(op, sels=s2)))
        if not cands:
            break
        oks = fails(cands)
        for c, ok in zip(cands, oks):
            if ok:
                cur = c
                changed = True
                break
    return cur


def minimise_threads(sc, inv, jobs, fails, t0, budget_s):
    """E2: turn the seeded schedule into an explicit list of hand-overs, then
    remove context switches, calls and threads while the same invariant fails."""
    r = world.run_many(_run_task, [{"scenario": sc}], jobs=1, timeout=60)[0]
    cur = sc
    if r.get("ok") and same_failure(r, inv):
        first = sc["sched"].get("first", 0)
        if sc["sched"].get("strategy") == "pct":
            prio = sc["sched"].get("prio", [])
            first = max(range(len(prio)), key=lambda t: prio[t]) if prio else 0
        cand = dict(sc, sched={"strategy": "replay", "switches": r["res"]["switches"], "first": first,
                               "bound": 99})
        if fails([cand])[0]:
            cur = cand
    changed = True
    while changed and time.time() - t0 < budget_s:
        changed = False
        cands = []
        if cur["sched"].get("strategy") == "replay":
            sw = cur["sched"]["switches"]
            for i in range(len(sw)):
                cands.append(dict(cur, sched=dict(cur["sched"], switches=sw[:i] + sw[i + 1:])))
        for t, th in enumerate(cur["threads"]):
            rounds = th.get("rounds") or [{"probe": th.get("probe"), "calls": th.get("calls", [])}]
            for ri, rnd in enumerate(rounds):
                for i in range(len(rnd["calls"])):
                    r2 = dict(rnd, calls=rnd["calls"][:i] + rnd["calls"][i + 1:])
                    th2 = {"rounds": rounds[:ri] + [r2] + rounds[ri + 1:]}
                    cands.append(dict(cur, threads=cur["threads"][:t] + [th2] + cur["threads"][t + 1:]))
                if len(rounds) > 1:
                    th2 = {"rounds": rounds[:ri] + rounds[ri + 1:]}
                    cands.append(dict(cur, threads=cur["threads"][:t] + [th2] + cur["threads"][t + 1:]))
        if not cands:
            break
        oks = fails(cands)
        for c, ok in zip(cands, oks):
            if ok:
                cur = c
                changed = True
                break
    return cur


def triage_key(v):
    inv, opi, d = v
    parts = [inv]
    if isinstance(d, dict):
        op = d.get("op") or {}
        if not isinstance(op, dict):
            op = {"id": op}
        parts.append(str(op.get("fn") or op.get("gen") or op.get("id") or ""))
        for side in ("ref", "sys"):
            o = d.get(side)
            if isinstance(o, list) and o and o[0] in ("ret", "exc"):
                parts.append(f"{side}={o[0]}" + (f":{o[1][1]}" if o[0] == "exc" else ""))
        if "error" in d:
            parts.append(json.dumps(d["error"], default=repr)[:110])
        if "sel" in d:
            parts.append(str(d["sel"]))
    return " ".join(parts)


def _with_op(sc, i, op):
    ops = list(sc["ops"])
    ops[i] = op
    return dict(sc, ops=ops)


def write_replay(prop, seed, idx, sc, inv, detail):
    d = os.path.join(world.VERIF, "replays")
    os.makedirs(d, exist_ok=True)
    path = os.path.join(d, f"{prop}-{seed}-{idx}.json")
    with open(path, "w") as f:
        json.dump(
            {"property": prop, "invariant": inv, "seed": seed, "run": idx,
             "scenario": sc, "detail": detail},
            f, indent=1, default=repr,
        )
    return path


def replay_file(path, jobs=1):
    with open(path) as f:
        rp = json.load(f)
    rs = world.run_many(_run_task, [{"scenario": rp["scenario"]}] * 2, jobs=2, timeout=60)
    return rp, rs


def main(argv=None):
    ap = argparse.ArgumentParser()
    ap.add_argument("prop")
    ap.add_argument("--tier", default=os.environ.get("VERIF_TIER", "quick"))
    ap.add_argument("--replay")
    ap.add_argument("--runs", type=int)
    ap.add_argument("--jobs", type=int, default=min(16, os.cpu_count() or 4))
    ap.add_argument("--no-minimise", action="store_true")
    ap.add_argument("--keep-going", action="store_true")
    ap.add_argument("--digests", type=int, help="print the event-log digests of the first N seeded runs and exit")
    ap.add_argument("--only-run", type=int, help="run just this run index (then minimise / write replay as usual)")
    ap.add_argument("--fast", action="store_true", help="selftest: fewer runs")
    ap.add_argument("--no-known", action="store_true", help="ignore known_findings.json (no quarantine, no pinned replays)")
    args = ap.parse_args(argv)
    if args.prop == "selftest":
        from . import selftest

        return selftest.main(args)
    world.bootstrap()
    global _LENS, _TIER, _QUAR
    prop = args.prop
    if prop not in LENSES:
        print(f"HARNESS-ERROR unknown property {prop}")
        return 2
    lens = importlib.import_module(f"sim.lenses.{LENSES[prop]}")
    _LENS = lens
    _TIER = args.tier
    seed = int(os.environ.get("VERIF_SEED", "0"))
    make_scratch()
    from . import catalogue, harness

    for pn in lens.PROGRAMS:
        harness.prepare_program(catalogue.get(pn), pn)
    known = [] if args.no_known else [k for k in load_known() if k["property"] == prop]
    _QUAR = tuple(q for k in known if k["status"] == "open" for q in k.get("quarantine", []))
    t0 = time.time()

    if args.replay:
        rp, rs = replay_file(args.replay)
        ok = all(r.get("ok") for r in rs)
        if not ok:
            print("HARNESS-ERROR replay crashed:", [r.get("err") for r in rs])
            return 2
        d0, d1 = rs[0]["res"]["digest"], rs[1]["res"]["digest"]
        hit = [v for v in rs[0]["res"]["viol"] if v[0] == rp["invariant"]]
        print(f"replay {args.replay}: digest {d0} (twice: {d0 == d1}); "
              f"invariant {rp['invariant']} fails: {bool(hit)}")
        if hit:
            print(json.dumps(hit[0], indent=1, default=repr)[:3000])
            print(f"VIOLATION property={prop} replay={args.replay}")
            return 1
        return 0

    if args.digests:
        tasks = [{"seed": world.mix(seed, prop, args.tier, i)} for i in range(args.digests)]
        rs = world.run_many(_run_task, tasks, jobs=args.jobs, timeout=60)
        print("DIGESTS " + json.dumps([r["res"]["digest"] if r.get("ok") else "ERR" for r in rs]))
        return 0

    from . import evidence

    return evidence.run_check(prop, lens, args, seed, known, t0)


if __name__ == "__main__":
    sys.exit(main())
