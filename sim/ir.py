"""Actor IR -> Python source, in two flavours.

* plain   : the program itself.  Emitted twice under two module names: the
            ``_ref`` twin (never shown to ptera) and the ``_sys`` twin (the one
            ptera instruments).
* traced  : the same program with explicit calls to a tracer ``T`` after every
            binding, around every activation, loop iteration and yield.  CPython
            executing this twin *is* the reference interpreter M-py of DESIGN.md
            3.4: it yields the activation trace (bind/enter/exit/value/error/
            loop/endloop/yield/receive events with the live stack) and, through
            ``T.b`` returning a possibly substituted value, defines "the
            original program if those bindings had stored the supplied value".

The IR is plain JSON (lists / dicts / strings / ints) so that a replay file is
self-contained.

Expressions
    ["val"]                      ENV.val(site)       fresh unique value
    ["var", x]                   x
    ["add", e1, e2]              (e1 + e2)
    ["seq", n, kind]             ENV.seq(site, n, kind)
    ["call", g, [e...]]          g(e...)             another actor (module global)
    ["mcall", o, m, [e...]]      o.m(e...)
    ["walrus", x, e]             (x := e)
    ["tup", [e...]]              (e, ...)
    ["lam", e]                   (lambda _q: e)(0)
    ["comp", e]                  [e for _c in ENV.iter(site)]
    ["const", v]                 literal
    ["obj"]                      ENV.obj(site)
    ["neg", e]                   (-e)

Targets
    "x" | ["t", [targets]] | ["*", "x"] | ["attr", o, n] | ["sub", o, e]

Statements
    ["bind", target, e]          ["chain", [targets], e]      ["aug", x, e]
    ["ann", x, ann_src, e|None]  ["if", body, orelse]         ["ifx", e, body, orelse]
    ["while", body]              ["for", target, body, orelse]
    ["try", body, [[exc, as|None, body]...], orelse, final]
    ["with", as|None, body]      ["import", mod, as|None]     ["from", mod, name, as|None]
    ["def", name, body_e]        ["class", name, e]           ["ret", e|None]
    ["yield", e|None, into|None] ["break"] ["cont"] ["pass"]
    ["global", G] ["nonlocal", n] ["use", [x...]] ["pt"] ["raise"] ["raiseo"]
    ["expr", e]                  ["pick", [body...]]          ["del", x]
    ["yieldfrom", e]

Function
    {"name", "params": [p...], "defaults": n_trailing_defaults, "vararg", "kwonly": [..],
     "kwarg", "body": [...], "kind": "plain"|"method"|"closure"|"deco"|"static",
     "cls": class name for methods, "free": [closure names], "ret_ann": src|None,
     "pann": {param: annotation source}}
"""

import json


class Emitter:
    def __init__(self, traced):
        self.traced = traced
        self.lines = []
        self.ind = 0
        self.site_n = 0
        self.fname = None
        self.tmp_n = 0

    # -- helpers ------------------------------------------------------------
    def w(self, s):
        self.lines.append("    " * self.ind + s)

    def site(self):
        self.site_n += 1
        return repr(f"{self.fname}.{self.site_n}")

    def tmp(self):
        self.tmp_n += 1
        return f"_t{self.tmp_n}"

    # -- expressions ----------------------------------------------------------
    def e(self, x):
        op = x[0]
        if op == "val":
            return f"ENV.val({self.site()})"
        if op == "var":
            return x[1]
        if op == "const":
            return repr(x[1])
        if op == "add":
            a = self.e(x[1])
            b = self.e(x[2])
            return f"({a} + {b})"
        if op == "neg":
            return f"(-{self.e(x[1])})"
        if op == "seq":
            return f"ENV.seq({self.site()}, {x[1]}, {x[2]!r})"
        if op == "call":
            args = ", ".join(self.e(a) for a in x[2])
            return f"{x[1]}({args})"
        if op == "mcall":
            args = ", ".join(self.e(a) for a in x[3])
            return f"{x[1]}.{x[2]}({args})"
        if op == "walrus":
            inner = self.e(x[2])
            if self.traced:
                return f"({x[1]} := T.b(_A, {x[1]!r}, {inner}))"
            return f"({x[1]} := {inner})"
        if op == "tup":
            inner = ", ".join(self.e(a) for a in x[1])
            return f"({inner},)"
        if op == "lam":
            return f"(lambda _q: {self.e(x[1])})(0)"
        if op == "comp":
            s = self.site()
            return f"[{self.e(x[1])} for _c in ENV.iter({s})]"
        if op == "obj":
            return f"ENV.obj({self.site()})"
        if op == "next":
            return f"next({x[1]}, -1)"
        if op == "slc":
            # a slice, as the index of a subscript target only: o[a:b] = v.  (The traced twin keeps
            # the index in a temporary: there it is spelt slice(a, b).)
            lo, hi = self.e(x[1]), self.e(x[2])
            return f"slice({lo}, {hi})" if self.traced else f"{lo}:{hi}"
        if op == "lamd":
            # (lambda _q=(x := e): _q)(): a default value is evaluated by the enclosing function --
            # the assignment expression binds *its* x
            return f"(lambda _q={self.e(['walrus', x[1], x[2]])}: _q)()"
        if op == "lamw":
            # (lambda _q: (y := e))(0): the assignment expression binds the *lambda's* y, not the
            # enclosing function's -- never traced
            saved, self.traced = self.traced, False
            try:
                inner = self.e(x[2])
            finally:
                self.traced = saved
            return f"(lambda _q: ({x[1]} := {inner}))(0)"
        if op == "yieldfrom_e":
            # r = yield from <generator>: the delegate's return value
            return f"(yield from {self.e(x[1])})"
        if op == "yield":
            inner = "None" if x[1] is None else self.e(x[1])
            if self.traced:
                return f"T.recv(_A, (yield from T.yielding(_A, {inner})))"
            return "(yield)" if x[1] is None else f"(yield {inner})"
        raise ValueError(f"bad expr {x!r}")

    # -- targets ------------------------------------------------------------
    def target_src(self, t):
        if isinstance(t, str):
            return t
        if t[0] == "t":
            inner = ", ".join(self.target_src(u) for u in t[1])
            return f"({inner},)" if len(t[1]) == 1 else f"({inner})"
        if t[0] == "*":
            return f"*{t[1]}"
        if t[0] == "attr":
            return f"{t[1]}.{t[2]}"
        if t[0] == "sub":
            return f"{t[1]}[{self.e(t[2])}]"
        raise ValueError(f"bad tuple-target {t!r}")

    def target_names(self, t):
        if isinstance(t, str):
            return [t]
        if t[0] == "t":
            out = []
            for u in t[1]:
                out += self.target_names(u)
            return out
        if t[0] == "*":
            return [t[1]]
        return []

    def rebinds(self, names):
        for n in names:
            self.w(f"{n} = T.b(_A, {n!r}, {n})")

    # -- statements ---------------------------------------------------------
    def body(self, stmts):
        if not stmts:
            self.w("pass")
        for s in stmts:
            self.stmt(s)

    def block(self, head, stmts, pre=None):
        self.w(head)
        self.ind += 1
        if pre:
            pre()
        self.body(stmts)
        self.ind -= 1

    def stmt(self, s):
        op = s[0]
        T = self.traced
        if op == "bind":
            tgt, ex = s[1], s[2]
            if isinstance(tgt, str):
                v = self.e(ex)
                self.w(f"{tgt} = T.b(_A, {tgt!r}, {v})" if T else f"{tgt} = {v}")
            elif tgt[0] in ("t", "*"):
                v = self.e(ex)
                if T:
                    # the value is unpacked first (into temporaries of the same shape); then every
                    # leaf is reported and stored, left to right -- as a plain assignment is (a store
                    # into an object evaluates its index / object at that moment, as Python does)
                    leaves = []

                    def mirror(t):
                        if isinstance(t, str):
                            leaves.append((t, self.tmp()))
                            return leaves[-1][1]
                        if t[0] == "*":
                            leaves.append((t[1], self.tmp()))
                            return ["*", leaves[-1][1]]
                        if t[0] in ("attr", "sub"):
                            leaves.append((t, self.tmp()))
                            return leaves[-1][1]
                        return ["t", [mirror(u) for u in t[1]]]

                    self.w(f"{self.target_src(mirror(tgt))} = {v}")
                    for leaf, tm in leaves:
                        if isinstance(leaf, str):
                            self.w(f"{leaf} = T.b(_A, {leaf!r}, {tm})")
                        elif leaf[0] == "attr":
                            name = f"{leaf[1]}.{leaf[2]}"
                            self.w(f"{name} = T.b(_A, {name!r}, {tm})")
                        else:
                            to, tk = self.tmp(), self.tmp()
                            self.w(f"{to} = {leaf[1]}")
                            self.w(f"{tk} = {self.e(leaf[2])}")
                            self.w(f"{to}[{tk}] = T.b(_A, '{leaf[1]}[%r]' % ({tk},), {tm})")
                else:
                    self.w(f"{self.target_src(tgt)} = {v}")
            elif tgt[0] == "attr":
                v = self.e(ex)
                name = f"{tgt[1]}.{tgt[2]}"
                self.w(
                    f"{name} = T.b(_A, {name!r}, {v})" if T else f"{name} = {v}"
                )
            elif tgt[0] == "sub":
                # python evaluates the value first, then the index
                v = self.e(ex)
                k = self.e(tgt[2])
                if T:
                    # python: value, then the container, then the index
                    tv, to, tk = self.tmp(), self.tmp(), self.tmp()
                    self.w(f"{tv} = {v}")
                    self.w(f"{to} = {tgt[1]}")
                    self.w(f"{tk} = {k}")
                    self.w(
                        f"{to}[{tk}] = T.b(_A, '{tgt[1]}[%r]' % ({tk},), {tv})"
                    )
                else:
                    self.w(f"{tgt[1]}[{k}] = {v}")
            else:
                raise ValueError(f"bad target {tgt!r}")
        elif op == "chain":
            v = self.e(s[2])
            if T:
                tv = self.tmp()
                self.w(f"{tv} = {v}")
                # python binds the targets left to right
                for t in s[1]:
                    if isinstance(t, str):
                        self.w(f"{t} = T.b(_A, {t!r}, {tv})")
                    elif t[0] == "attr":
                        name = f"{t[1]}.{t[2]}"
                        self.w(f"{name} = T.b(_A, {name!r}, {tv})")
                    elif t[0] == "sub":
                        to, tk = self.tmp(), self.tmp()
                        self.w(f"{to} = {t[1]}")
                        self.w(f"{tk} = {self.e(t[2])}")
                        self.w(f"{to}[{tk}] = T.b(_A, '{t[1]}[%r]' % ({tk},), {tv})")
                    else:
                        self.w(f"{self.target_src(t)} = {tv}")
                        self.rebinds(self.target_names(t))
            else:
                srcs = []
                for t in s[1]:
                    if isinstance(t, list) and t[0] == "attr":
                        srcs.append(f"{t[1]}.{t[2]}")
                    elif isinstance(t, list) and t[0] == "sub":
                        srcs.append(f"{t[1]}[{self.e(t[2])}]")
                    else:
                        srcs.append(self.target_src(t))
                self.w(f"{' = '.join(srcs)} = {v}")
        elif op == "aug":
            v = self.e(s[2])
            self.w(f"{s[1]} += {v}")
            if T:
                self.rebinds([s[1]])
        elif op == "augattr":
            # o.n += e : not a binding of a name (no trace event), but an observable store
            self.w(f"{s[1]}.{s[2]} += {self.e(s[3])}")
        elif op == "ann":
            x, ann, ex = s[1], s[2], s[3]
            if isinstance(x, list):
                # o.n: ann [= e] -- no variable is declared; without a value nothing is stored
                name = f"{x[1]}.{x[2]}"
                if ex is None:
                    self.w(f"{name}: {ann}")
                else:
                    v = self.e(ex)
                    self.w(f"{name}: {ann} = T.b(_A, {name!r}, {v})" if T else f"{name}: {ann} = {v}")
            elif ex is None:
                self.w(f"{x}: {ann}")
                if T:
                    self.w(f"{x} = T.decl(_A, {x!r})")
            else:
                v = self.e(ex)
                self.w(
                    f"{x}: {ann} = T.b(_A, {x!r}, {v})" if T else f"{x}: {ann} = {v}"
                )
        elif op == "if":
            self.block(f"if ENV.cond({self.site()}):", s[1])
            if s[2]:
                self.block("else:", s[2])
        elif op == "ifx":
            self.block(f"if {self.e(s[1])}:", s[2])
            if s[3]:
                self.block("else:", s[3])
        elif op == "while":
            self.block(f"while ENV.cond({self.site()}):", s[1])
            if len(s) > 2 and s[2]:
                self.block("else:", s[2])
        elif op == "for":
            tgt = s[1]
            names = self.target_names(tgt)
            width = len(names)
            if isinstance(tgt, list) and tgt[0] == "t":
                it = f"ENV.iter({self.site()}, {width})"
            else:
                it = f"ENV.iter({self.site()})"
            self.w(f"for {self.target_src(tgt)} in {it}:")
            self.ind += 1
            if T:
                self.w("try:")
                self.ind += 1
                self.w(f"T.loop(_A, {names!r})")
                self.rebinds(names)
                self.body(s[2])
                self.ind -= 1
                self.w("finally:")
                self.ind += 1
                self.w(f"T.endloop(_A, {names!r})")
                self.ind -= 1
            else:
                self.body(s[2])
            self.ind -= 1
            if s[3]:
                self.block("else:", s[3])
        elif op == "try":
            self.block("try:", s[1])
            for exc, asn, hb in s[2]:
                head = f"except {exc}" if exc else "except"
                if asn:
                    head += f" as {asn}"
                pre = None
                if T and asn:
                    pre = lambda asn=asn: self.rebinds([asn])
                self.block(head + ":", hb, pre)
            if s[3]:
                self.block("else:", s[3])
            if s[4]:
                self.block("finally:", s[4])
        elif op == "with":
            asn = s[1]
            head = f"with ENV.cm({self.site()})"
            if asn:
                head += f" as {asn}"
            pre = None
            if T and asn:
                pre = lambda: self.rebinds([asn])
            self.block(head + ":", s[2], pre)
        elif op in ("with2", "withn"):
            # with cm() as a, cm(a) as b, ...:  is  with cm() as a: with cm(a) as b: ...  -- each
            # target is bound (and reported, and possibly given another value) before the next
            # manager is created from it
            names, body = ([s[1], s[2]], s[3]) if op == "with2" else (s[1], s[2])
            heads = []
            for j, nm in enumerate(names):
                dep = f", {names[j - 1]}" if j else ""
                heads.append(f"ENV.cm({self.site()}{dep}) as {nm}")
            if T:
                for j, (h, nm) in enumerate(zip(heads, names)):
                    self.w("with " + h + ":")
                    self.ind += 1
                    self.rebinds([nm])
                self.body(body)
                self.ind -= len(names)
            else:
                self.block("with " + ", ".join(heads) + ":", body)
        elif op == "import":
            mod, asn = s[1], s[2]
            self.w(f"import {mod}" + (f" as {asn}" if asn else ""))
            if T:
                self.rebinds([asn or mod.split(".")[0]])
        elif op == "from":
            mod, name, asn = s[1], s[2], s[3]
            self.w(f"from {mod} import {name}" + (f" as {asn}" if asn else ""))
            if T:
                self.rebinds([asn or name])
        elif op == "def":
            # nested pass-through function using only its own names and ENV
            self.w(f"def {s[1]}(_z=0):")
            self.ind += 1
            self.w(f"_w = {self.e(s[2])}")
            self.w("return _w")
            self.ind -= 1
        elif op == "adef":
            # nested coroutine function (never called): binds its name like a nested def; its
            # default value is evaluated here
            self.w(f"async def {s[1]}(_z={self.e(s[2])}):")
            self.ind += 1
            self.w("return _z")
            self.ind -= 1
        elif op == "nested_fn":
            # a full (traceable, probe-able) actor function defined inside this one
            saved = (self.fname, self.site_n, self.tmp_n)
            self.function(s[1], qual=s[1]["name"])
            self.fname, self.site_n, self.tmp_n = saved
        elif op == "class":
            self.w(f"class {s[1]}:")
            self.ind += 1
            self.w(f"_cv = {self.e(s[2])}")
            self.w("def m(self):")
            self.ind += 1
            self.w("return self._cv")
            self.ind -= 2
        elif op == "ret":
            if s[1] is None:
                self.w("return T.value(_A, None)" if T else "return")
            else:
                v = self.e(s[1])
                self.w(f"return T.value(_A, {v})" if T else f"return {v}")
        elif op == "yield":
            ex, into = s[1], s[2]
            y = self.e(["yield", ex])
            if into:
                self.w(f"{into} = T.b(_A, {into!r}, {y})" if T else f"{into} = {y}")
            else:
                self.w(y)
        elif op == "yieldfrom":
            self.w(f"yield from {self.e(s[1])}")
        elif op == "close":
            self.w(f"{s[1]}.close()")
        elif op == "break":
            self.w("break")
        elif op == "cont":
            self.w("continue")
        elif op == "pass":
            self.w("pass")
        elif op == "global":
            self.w(f"global {s[1]}")
        elif op == "nonlocal":
            self.w(f"nonlocal {s[1]}")
        elif op == "use":
            args = ", ".join(s[1])
            self.w(f"ENV.use({self.site()}, {args})")
        elif op == "pt":
            self.w(f"ENV.pt({self.site()})")
        elif op == "raise":
            self.w(f"raise ENV.exc({self.site()})")
        elif op == "raiseo":
            self.w(f"raise ENV.exc({self.site()}, True)")
        elif op == "expr":
            self.w(self.e(s[1]))
        elif op == "del":
            self.w(f"del {s[1]}")
        elif op == "pick":
            arms = s[1]
            pk = self.tmp()
            self.w(f"{pk} = ENV.pick({self.site()}, {len(arms)})")
            for i, arm in enumerate(arms):
                self.block(("if" if i == 0 else "elif") + f" {pk} == {i}:", arm)
        else:
            raise ValueError(f"bad stmt {s!r}")

    # -- functions ----------------------------------------------------------
    def signature(self, fn):
        parts = []
        params = fn.get("params", [])
        nd = fn.get("defaults", 0)
        pann = fn.get("pann", {})
        po = fn.get("posonly", 0)

        def p_src(p, default):
            s = p
            if p in pann:
                s += f": {pann[p]}"
                if default:
                    s += " = -1"
            elif default:
                s += "=-1"
            return s

        for i, p in enumerate(params):
            parts.append(p_src(p, i >= len(params) - nd))
            if po and i == po - 1:
                parts.append("/")
        if fn.get("vararg"):
            parts.append("*" + fn["vararg"])
        elif fn.get("kwonly"):
            parts.append("*")
        for p in fn.get("kwonly", []):
            parts.append(p_src(p, True))
        if fn.get("kwarg"):
            parts.append("**" + fn["kwarg"])
        return ", ".join(parts)

    def param_order(self, fn):
        """ptera reports parameters in this order (positional, kw-only, *va, **kw)."""
        out = list(fn.get("params", [])) + list(fn.get("kwonly", []))
        if fn.get("vararg"):
            out.append(fn["vararg"])
        if fn.get("kwarg"):
            out.append(fn["kwarg"])
        return out

    def function(self, fn, qual=None):
        name = fn["name"]
        self.fname = qual or name
        self.site_n = 0
        self.tmp_n = 0
        ret = f" -> {fn['ret_ann']}" if fn.get("ret_ann") else ""
        kind = fn.get("kind", "plain")
        if kind == "deco":
            self.w("@_deco")
        if kind == "static":
            self.w("@staticmethod")
        if kind == "prop":
            self.w("@property")
        self.w(f"{'async ' if fn.get('async') else ''}def {name}({self.signature(fn)}){ret}:")
        self.ind += 1
        if fn.get("doc"):
            self.w(repr(fn["doc"]))
        for g in fn.get("globals", []):
            self.w(f"global {g}")
        for g in fn.get("nonlocals", []):
            self.w(f"nonlocal {g}")
        if self.traced:
            # (a function made several times by one factory is told its name by the factory)
            self.w("_A = T.enter(_nm)" if fn.get("dyn_name") else f"_A = T.enter({self.fname!r})")
            self.w("try:")
            self.ind += 1
            self.w("T.entered(_A)")
            self.rebinds(self.param_order(fn))
            self.body(fn["body"])
            self.w("return T.value(_A, None)")
            self.ind -= 1
            self.w("except BaseException as _e:")
            self.ind += 1
            self.w("T.error(_A, _e)")
            self.w("raise")
            self.ind -= 1
            self.w("finally:")
            self.ind += 1
            self.w("T.exit(_A)")
            self.ind -= 1
        else:
            self.body(fn["body"])
        self.ind -= 1
        self.w("")


PRELUDE = '''\
# generated actor module -- do not edit
import functools
from sim.env import EnvFault, EnvBaseFault, ProgErr, OtherErr

ENV = None


class _NullTracer:
    """Used while the module body itself runs (closure factories are called
    at import time, before the simulator installs the real tracer)."""

    def __getattr__(self, name):
        if name in ("b", "value", "yld", "recv"):
            return lambda *a: a[-1]
        return lambda *a: None

    def yielding(self, a, v):
        got = yield v
        return got


T = _NullTracer()
G0 = 7
G1 = 8
GN = None  # a global that is defined, and bound to None
NOTFN = len  # a name that resolves to something ptera cannot instrument


def _deco(fn):
    @functools.wraps(fn)
    def wrapper(*a, **k):
        return fn(*a, **k)

    return wrapper


class _Eq:
    """value-equal, hashable"""

    def __init__(self, label, key):
        self._label = label
        self.key = key

    def __eq__(self, other):
        return isinstance(other, _Eq) and other.key == self.key

    def __hash__(self):
        return hash(self.key)


class _NoHash:
    """defines __eq__ without __hash__ -> unhashable"""

    def __init__(self, label, key):
        self._label = label
        self.key = key

    def __eq__(self, other):
        return isinstance(other, _NoHash) and other.key == self.key

'''


def emit_module(program, traced):
    """program: {"functions": [fn...], "classes": [{"name", "base", "methods": [fn...],
    "nested": [class...]}], "closures": [{"factory", "free": {...}, "fn": fn}]}"""
    em = Emitter(traced)
    for ln in PRELUDE.splitlines():
        em.lines.append(ln)
    for extra in program.get("module_globals", []):
        em.w(extra)

    def emit_class(cls, prefix=""):
        base = cls.get("base")
        bases = f"({base})" if base else ""
        em.w(f"class {cls['name']}{bases}:")
        em.ind += 1
        qual = prefix + cls["name"]
        if cls.get("init", True):
            em.w("def __init__(self, label='', key=0):")
            em.ind += 1
            em.w("self._label = label")
            em.w("self.key = key")
            em.ind -= 1
            em.w("")
        if cls.get("eq") in ("eq", "nohash"):
            em.w("def __eq__(self, other):")
            em.ind += 1
            em.w("return type(other) is type(self) and other.key == self.key")
            em.ind -= 1
            em.w("")
            if cls["eq"] == "eq":
                em.w("def __hash__(self):")
                em.ind += 1
                em.w("return hash(self.key)")
                em.ind -= 1
                em.w("")
        if cls.get("eq") == "raises":
            # array-like: comparing it with anything does not yield a truth value
            em.w("def __eq__(self, other):")
            em.ind += 1
            em.w("raise ValueError('the truth value of this comparison is ambiguous')")
            em.ind -= 1
            em.w("")
            em.w("__hash__ = object.__hash__")
            em.w("")
        if cls.get("falsy"):
            # container-like: empty, hence false in a boolean context
            em.w("def __len__(self):")
            em.ind += 1
            em.w("return 0")
            em.ind -= 1
            em.w("")
        for m in cls.get("methods", []):
            em.function(m, qual=f"{qual}.{m['name']}")
        for n in cls.get("nested", []):
            emit_class(n, prefix=qual + ".")
        em.ind -= 1
        em.w("")

    for cls in program.get("classes", []):
        emit_class(cls)
    for fn in program.get("functions", []):
        em.function(fn)
    for clo in program.get("closures", []):
        # def _mk_f(c0, c1):  def f(...): ... ; return f ;  f = _mk_f(41, 42)
        free = clo["free"]
        em.function(factory_ir(clo))
        args = ", ".join(str(v) for v in free.values())
        if clo.get("twins"):
            em.w(f"{clo['fn']['name']} = {clo['factory']}({args}, {clo['fn']['name']!r})")
            for tname, tfree in clo["twins"].items():
                targs = ", ".join(str(tfree.get(k, v)) for k, v in free.items())
                em.w(f"{tname} = {clo['factory']}({targs}, {tname!r})")
        else:
            em.w(f"{clo['fn']['name']} = {clo['factory']}({args})")
        em.w("")
    for tail in program.get("module_tail", []):
        em.w(tail)
    return "\n".join(em.lines) + "\n"


def factory_ir(clo):
    return {
        "name": clo["factory"],
        "params": list(clo["free"]) + (["_nm"] if clo.get("twins") else []),
        "body": [["nested_fn", clo["fn"]], ["ret", ["var", clo["fn"]["name"]]]],
        "factory_of": clo["fn"]["name"],
    }


def all_functions(program):
    """[(qualname, fn-ir)] for every function of a program."""
    out = []

    def walk_class(cls, prefix=""):
        qual = prefix + cls["name"]
        for m in cls.get("methods", []):
            out.append((f"{qual}.{m['name']}", m))
        for n in cls.get("nested", []):
            walk_class(n, qual + ".")

    for cls in program.get("classes", []):
        walk_class(cls)
    for fn in program.get("functions", []):
        out.append((fn["name"], fn))
    for clo in program.get("closures", []):
        out.append((clo["fn"]["name"], clo["fn"]))
        for tname in clo.get("twins", {}):
            out.append((tname, clo["fn"]))
        out.append((clo["factory"], factory_ir(clo)))
    return out


def bound_names(fn):
    """Names a function's own body binds, by form (for selector generation)."""
    forms = {}

    def add(n, form):
        forms.setdefault(n, set()).add(form)

    def tnames(t, form):
        if isinstance(t, str):
            add(t, form)
        elif t[0] == "t":
            for u in t[1]:
                tnames(u, "tuple" if form == "plain" else form)
        elif t[0] == "*":
            add(t[1], "star")

    def ex(x):
        if not isinstance(x, list) or not x:
            return
        if x[0] in ("walrus", "lamd"):
            add(x[1], "walrus")
            ex(x[2])
        elif x[0] in ("add", "slc"):
            ex(x[1])
            ex(x[2])
        elif x[0] in ("call",):
            for a in x[2]:
                ex(a)
        elif x[0] == "mcall":
            for a in x[3]:
                ex(a)
        elif x[0] in ("tup",):
            for a in x[1]:
                ex(a)
        elif x[0] in ("neg", "yield"):
            if x[1] is not None:
                ex(x[1])
        # lam / comp bodies have their own scope for walrus? (walrus in a
        # comprehension binds in the enclosing function; we never generate it)

    def st(s):
        op = s[0]
        if op == "bind":
            tnames(s[1], "plain")
            if isinstance(s[1], list) and s[1][0] == "sub":
                ex(s[1][2])
            ex(s[2])
        elif op == "chain":
            for t in s[1]:
                tnames(t, "chain")
            ex(s[2])
        elif op == "aug":
            add(s[1], "aug")
            ex(s[2])
        elif op == "ann":
            if isinstance(s[1], str):
                add(s[1], "ann" if s[3] is not None else "decl")
            if s[3] is not None:
                ex(s[3])
        elif op == "adef":
            ex(s[2])
        elif op in ("if",):
            for b in s[1:3]:
                for q in b or []:
                    st(q)
        elif op == "ifx":
            ex(s[1])
            for b in s[2:4]:
                for q in b or []:
                    st(q)
        elif op == "while":
            for b in s[1:3]:
                for q in b or []:
                    st(q)
        elif op == "for":
            tnames(s[1], "loop")
            for b in (s[2], s[3]):
                for q in b or []:
                    st(q)
        elif op == "try":
            for q in s[1]:
                st(q)
            for exc, asn, hb in s[2]:
                if asn:
                    add(asn, "except")
                for q in hb:
                    st(q)
            for b in (s[3], s[4]):
                for q in b or []:
                    st(q)
        elif op == "with":
            if s[1]:
                add(s[1], "with")
            for q in s[2]:
                st(q)
        elif op in ("with2", "withn"):
            names, body = ([s[1], s[2]], s[3]) if op == "with2" else (s[1], s[2])
            for nm in names:
                add(nm, "with")
            for q in body:
                st(q)
        elif op == "import":
            add(s[2] or s[1].split(".")[0], "import")
        elif op == "from":
            add(s[3] or s[2], "import")
        elif op == "ret":
            if s[1] is not None:
                ex(s[1])
        elif op == "yield":
            if s[2]:
                add(s[2], "yieldinto")
            if s[1] is not None:
                ex(s[1])
        elif op == "expr":
            ex(s[1])
        elif op == "pick":
            for arm in s[1]:
                for q in arm:
                    st(q)

    for p in Emitter(False).param_order(fn):
        add(p, "param")
    for s in fn["body"]:
        st(s)
    return forms


def is_generator(fn):
    return "yield" in json.dumps(fn["body"])
