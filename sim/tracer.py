"""Tracer used by the traced twin (M-py, DESIGN.md 3.4).

Records the activation trace: one record per event, each carrying the live
stack of *executing* activations at that moment.  A generator activation that
is suspended at a yield is not executing: it leaves the stack at the yield
and re-enters it (under whoever resumes it) when it is touched again.

``hook(fn, var, value, act)`` may substitute the value a binding stores
(returns the value to store) -- this is how C04's "original program if those
bindings had stored the supplied value" and C16's "supplied from outside" are
defined.
"""

from .env import canon

NOVALUE = object()


class ModelNameError(NameError):
    """What the model expects for a declared-only variable nobody supplied."""

    def __init__(self, fn, var):
        super().__init__(fn, var)
        self.fn = fn
        self.var = var


class Act:
    __slots__ = ("id", "fn", "parent", "suspended", "ended", "anc")

    def __init__(self, id, fn, parent):
        self.id = id
        self.fn = fn
        self.parent = parent
        self.suspended = False
        self.ended = False
        # ancestors by *call tree* (who was executing when it was entered)
        self.anc = frozenset() if parent is None else parent.anc | {parent.id}


class _Thrown:
    def __init__(self, exc):
        self.exc = exc


class Tracer:
    def __init__(self, hook=None, decl_hook=None):
        self.events = []
        self.acts = {}
        self.stack = []
        self.hook = hook
        self.decl_hook = decl_hook
        self.n = 0
        self.raw = []  # raw python values of bind events (for override fns)
        # called after an event has been recorded, with that event: may raise -- this is how a
        # subscriber of a probe that fails on that event is put into the model (the failure
        # surfaces in the probed program at the very point of the event)
        self.after = None
        self.decl_attempt = None

    # -- stack discipline -----------------------------------------------------
    def _touch(self, a):
        if a.suspended:
            a.suspended = False
            self.stack.append(a)

    def _ev(self, a, kind, var=None, val=None, rawval=NOVALUE):
        self.events.append(
            {
                "i": len(self.events),
                "act": a.id,
                "fn": a.fn,
                "k": kind,
                "var": var,
                "val": val,
                "stack": [x.id for x in self.stack],
            }
        )
        self.raw.append(rawval)

    def _after(self):
        if self.after is not None:
            ev = self.events[-1]
            try:
                self.after(ev)
            except BaseException:
                ev["struck"] = True  # an injected failure surfaced while this event was delivered
                raise

    # -- called by generated code ---------------------------------------------
    def enter(self, fn):
        parent = self.stack[-1] if self.stack else None
        self.n += 1
        a = Act(self.n, fn, parent)
        self.acts[a.id] = a
        self.stack.append(a)
        self._ev(a, "enter")
        return a

    def entered(self, a):
        """First statement inside the activation's try block: the entry event is delivered from
        inside the region that the exit event closes."""
        if self.after is not None:
            for ev in reversed(self.events):
                if ev["act"] == a.id and ev["k"] == "enter":
                    self.after(ev)
                    break

    def b(self, a, var, value):
        self._touch(a)
        if self.hook is not None:
            value = self.hook(a.fn, var, value, a, self)
        self._ev(a, "bind", var, canon(value), value)
        self._after()
        return value

    def decl(self, a, var):
        self._touch(a)
        if self.decl_hook is not None:
            v = self.decl_hook(a.fn, var, a, self)
            if v is not NOVALUE:
                self._ev(a, "bind", var, canon(v), v)
                self._after()
                return v
        if self.decl_attempt is not None:
            # nobody supplied it; overriders aimed at the declaration were asked all the same
            self.decl_attempt(a.fn, var, a)
        raise ModelNameError(a.fn, var)

    def _supersede(self, a):
        """A completion that was under way (``return v`` whose value event is recorded) is replaced:
        by another return or by an exception raised in a finally clause / a context manager's exit.
        The earlier value was never returned."""
        for ev in reversed(self.events):
            if ev["act"] == a.id and ev["k"] == "value" and not ev.get("superseded") and not ev.get("struck"):
                ev["superseded"] = True
            elif ev["act"] == a.id and ev["k"] in ("enter",):
                break

    def value(self, a, v):
        self._touch(a)
        if self.hook is not None:
            v = self.hook(a.fn, "#value", v, a, self)
        self._supersede(a)
        self._ev(a, "value", "#value", canon(v), v)
        self._after()
        return v

    def fall(self, a):
        self._touch(a)
        self._supersede(a)
        self._ev(a, "value", "#value", None, None)
        self.events[-1]["fall"] = True
        self._after()

    def error(self, a, e):
        self._touch(a)
        # (the exception object itself is not kept: its traceback would keep
        # frames -- and suspended generators -- alive)
        self._supersede(a)
        self._ev(a, "error", "#error", canon(e), None)
        self._after()

    def exit(self, a):
        self._touch(a)
        self._ev(a, "exit")
        a.ended = True
        if a in self.stack:
            self.stack.remove(a)
        self._after()

    def loop(self, a, names):
        self._touch(a)
        self._ev(a, "loop", list(names))
        self._after()

    def endloop(self, a, names):
        self._touch(a)
        self._ev(a, "endloop", list(names))
        self._after()

    def yld(self, a, v):
        self._touch(a)
        if self.hook is not None:
            v = self.hook(a.fn, "#yield", v, a, self)
        self._ev(a, "yield", "#yield", canon(v), v)
        self._after()
        a.suspended = True
        if a in self.stack:
            self.stack.remove(a)
        return v

    def yielding(self, a, v):
        """The traced generator delegates each yield to this helper (``yield from``): it is told it
        runs again however it is resumed -- next / send, an exception thrown in (whose handler may
        call other actors before anything is bound), close."""
        v = self.yld(a, v)
        try:
            got = yield v
        except StopIteration as e:
            # thrown in: it cannot leave a generator as it is (PEP 479) -- recv raises it again,
            # in the traced generator itself
            got = _Thrown(e)
        finally:
            self._touch(a)
        return got

    def recv(self, a, v):
        self._touch(a)
        if type(v) is _Thrown:
            raise v.exc
        if self.hook is not None:
            v = self.hook(a.fn, "#receive", v, a, self)
        self._ev(a, "receive", "#receive", canon(v), v)
        self._after()
        return v
