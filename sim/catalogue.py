"""Fixed catalogue of actor programs, as IR (DESIGN.md 3.2).

Each program is one module layout; each function is small and centred on one
cluster of statement forms so that one unsupported form cannot poison the rest.
"""

V = ["val"]


def var(x):
    return ["var", x]


def fn(name, params, body, **kw):
    d = {"name": name, "params": list(params), "body": body}
    d.update(kw)
    return d


def use(*names):
    return ["use", list(names)]


# ---------------------------------------------------------------------------
# "forms": one function per cluster of binding / control-flow forms


def forms_program():
    F = []
    F.append(
        fn(
            "plain",
            ["p", "q"],
            [
                ["bind", "x", V],
                ["bind", "y", ["add", var("x"), V]],
                use("x", "y", "p", "q"),
                ["bind", "x", var("y")],
                ["ret", ["add", var("x"), var("p")]],
            ],
        )
    )
    for kind in ("tuple", "list", "gen", "dict", "iter"):
        F.append(
            fn(
                f"tup_{kind}",
                ["p"],
                [
                    ["bind", ["t", ["a", "b"]], ["seq", 2, kind + "?"]],
                    use("a", "b"),
                    ["ret", var("a")],
                ],
            )
        )
    F.append(
        fn(
            "tup_set",
            ["p"],
            [
                ["bind", ["t", ["a"]], ["seq", 1, "set"]],
                use("a"),
                ["ret", var("a")],
            ],
        )
    )
    F.append(
        fn(
            "tup_nested",
            ["p"],
            [
                [
                    "bind",
                    ["t", ["a", ["t", ["b", "c"]]]],
                    ["tup", [V, ["tup", [V, V]]]],
                ],
                use("a", "b", "c"),
                ["bind", ["t", ["a", "b"]], ["tup", [var("b"), var("a")]]],
                use("a", "b"),
                ["ret", var("c")],
            ],
        )
    )
    F.append(
        fn(
            "tup_star",
            ["p"],
            [
                ["bind", ["t", ["a", ["*", "r"], "c"]], ["seq", 4, "list?"]],
                use("a", "r", "c"),
                ["ret", var("r")],
            ],
        )
    )
    F.append(
        fn(
            "chain",
            ["p"],
            [
                ["chain", ["x", "y"], V],
                use("x", "y"),
                ["chain", ["x", ["t", ["a", "b"]]], ["seq", 2, "tuple"]],
                use("x", "a", "b"),
                ["ret", var("y")],
            ],
        )
    )
    F.append(
        fn(
            "chainstores",
            ["p"],
            [
                ["bind", "o", ["obj"]],
                ["bind", "i", ["const", 0]],
                # order-sensitive chains: observable stores, and a later target
                # that reads a name bound by an earlier one
                ["chain", [["attr", "o", "first"], ["attr", "o", "second"], "x"], V],
                ["chain", ["i", ["sub", "o", var("i")]], ["add", var("i"), V]],
                ["chain", [["sub", "o", V], "y", ["attr", "o", "n"]], var("x")],
                use("x", "y", "i"),
                ["ret", var("i")],
            ],
        )
    )
    F.append(
        fn(
            "aug",
            ["p"],
            [
                ["bind", "x", V],
                ["aug", "x", V],
                use("x"),
                ["aug", "p", var("x")],
                ["ret", var("p")],
            ],
        )
    )
    F.append(
        fn(
            "auglist",
            ["p"],
            [
                ["bind", "x", ["seq", 2, "list"]],
                ["bind", "y", var("x")],
                ["aug", "x", ["seq", 1, "tuple"]],
                use("x", "y"),
                ["bind", "s", ["seq", 1, "set"]],
                ["bind", "t", var("s")],
                ["ifx", ["const", True], [["aug", "t", ["seq", 0, "list"]]], []],
                ["ret", var("y")],
            ],
            # bound to containers that are mutated in place later: as *context*
            # captures their content "at that moment" is not what the trace
            # recorded at binding time, so lenses do not use them as context
            mutable=["x", "y", "s", "t"],
        )
    )
    F.append(
        fn(
            "ann",
            ["p"],
            [
                ["ann", "x", "int", V],
                ["ann", "z", '"@A & @B"', V],
                use("x", "z"),
                ["bind", "x", V],
                ["ret", var("x")],
            ],
            pann={"p": '"@A"'},
        )
    )
    F.append(
        fn(
            "attr",
            ["p"],
            [
                ["bind", "o", ["obj"]],
                ["bind", ["attr", "o", "n"], V],
                ["bind", ["attr", "o", "n"], var("p")],
                ["ret", var("p")],
            ],
        )
    )
    F.append(
        fn(
            # an unpacking assignment that stores into an object, at a place named by a variable
            # the same statement has just bound: (pos, o[pos], o.m) = ...
            "tupstore",
            ["p"],
            [
                ["bind", "o", ["obj"]],
                ["bind", "pos", V],
                ["bind", ["t", ["pos", ["sub", "o", var("pos")], ["attr", "o", "m"]]], ["seq", 3, "tuple"]],
                use("pos"),
                ["ret", var("pos")],
            ],
        )
    )
    F.append(
        fn(
            "sub",
            ["p"],
            [
                ["bind", "o", ["obj"]],
                ["bind", ["sub", "o", V], V],
                ["bind", ["sub", "o", var("p")], V],
                ["ret", var("p")],
            ],
        )
    )
    F.append(
        fn(
            # a slice store: the bounds are expressions of the function, evaluated once, after the value
            "slicestore",
            ["p"],
            [
                ["bind", "o", ["obj"]],
                ["bind", ["sub", "o", ["slc", V, ["add", var("p"), V]]], V],
                ["bind", "w", V],
                ["ret", var("w")],
            ],
        )
    )
    F.append(
        fn(
            "walrus",
            ["p"],
            [
                ["ifx", ["walrus", "w", V], [use("w")], []],
                ["bind", "y", ["add", ["walrus", "u", V], ["walrus", "w", V]]],
                use("u", "w", "y"),
                ["bind", "z", ["add", ["walrus", "n1", ["add", ["walrus", "n2", V], V]], V]],
                ["ifx", ["walrus", "n3", ["walrus", "n4", V]], [use("n1", "n2", "n3", "n4", "z")], []],
                # PEP 572: a walrus inside a comprehension binds in the enclosing function
                ["bind", "cw", ["const", 0]],
                ["bind", "lst", ["comp", ["walrus", "cw", ["add", var("cw"), V]]]],
                use("cw", "lst"),
                ["ret", var("y")],
            ],
        )
    )
    F.append(
        fn(
            "forloop",
            ["p"],
            [
                ["bind", "acc", ["const", 0]],
                [
                    "for",
                    "i",
                    [
                        ["pt"],
                        ["if", [["cont"]], []],
                        ["aug", "acc", var("i")],
                        ["if", [["break"]], []],
                        ["if", [["ret", var("i")]], []],
                        ["if", [["raise"]], []],
                        use("i", "acc"),
                    ],
                    [["bind", "done", V], use("done")],
                ],
                ["ret", var("acc")],
            ],
        )
    )
    F.append(
        fn(
            "fortuple",
            ["p"],
            [
                ["for", ["t", ["a", "b"]], [use("a", "b"), ["pt"]], []],
                ["ret", None],
            ],
        )
    )
    F.append(
        fn(
            # an assignment expression inside a lambda binds the lambda's own variable
            "lamwalrus",
            ["p"],
            [
                ["bind", "y", V],
                ["bind", "r", ["lamw", "y", V]],
                use("y", "r"),
                ["ret", var("y")],
            ],
        )
    )
    F.append(
        fn(
            # an assignment expression in the index of a subscript target: o[(k := ...)] = ...
            "subwalrus",
            ["p"],
            [
                ["bind", "o", ["obj"]],
                ["bind", ["sub", "o", ["walrus", "k", V]], ["add", var("p"), V]],
                use("k"),
                ["ret", var("k")],
            ],
        )
    )
    F.append(
        fn(
            # a local annotation Python never evaluates: the name exists for type checkers only
            "annundef",
            ["p"],
            [
                ["ann", "y", "OnlyForTypeCheckers", ["add", var("p"), V]],
                use("y"),
                ["ret", var("y")],
            ],
        )
    )
    F.append(
        fn(
            # annotations on attributes: 'o.n: T' declares nothing and stores nothing, and no such
            # annotation is ever evaluated inside a function
            "annattr",
            ["p"],
            [
                ["bind", "o", ["obj"]],
                ["ann", ["attr", "o", "n"], "int", None],
                ["ann", ["attr", "o", "m"], "OnlyForTypeCheckers", ["add", var("p"), V]],
                ["bind", "w", V],
                ["ret", var("w")],
            ],
        )
    )
    F.append(
        fn(
            # default values are evaluated by the enclosing function: what they bind is its own
            "lamdef",
            ["p"],
            [
                ["bind", "r", ["lamd", "k", ["add", var("p"), V]]],
                use("k"),
                ["adef", "inner", ["walrus", "j", V]],
                use("j"),
                ["expr", ["tup", [var("inner")]]],
                ["ret", var("k")],
            ],
        )
    )
    F.append(
        fn(
            # two context managers in one statement: the first target is bound before the second
            # manager is entered (which may fail)
            "withtwo",
            ["p"],
            [
                ["with2", "a", "b", [["bind", "x", ["add", var("p"), V]], use("a", "b")]],
                ["ret", var("p")],
            ],
        )
    )
    F.append(
        fn(
            # three managers, each made from the target of the one before
            "withthree",
            ["p"],
            [
                ["withn", ["a", "b", "c"], [["bind", "x", ["add", var("p"), V]], use("a", "b", "c")]],
                ["ret", var("p")],
            ],
        )
    )
    F.append(
        fn(
            # a module global that is declared, read and unbound
            "globdel",
            ["p"],
            [
                ["global", "G1"],
                use("G1"),
                ["del", "G1"],
                ["bind", "w", V],
                ["ret", var("w")],
            ],
        )
    )
    F.append(
        fn(
            "augwalrus",
            ["p"],
            [
                ["bind", "total", V],
                ["for", "i", [["aug", "total", ["walrus", "step", ["add", var("i"), V]]], use("total", "step")], []],
                ["ret", var("total")],
            ],
        )
    )
    F.append(
        fn(
            "forstar",
            ["p"],
            [
                ["bind", "tot", V],
                ["for", ["t", ["a", ["*", "rest"], "c"]],
                 [use("a", "rest", "c"), ["bind", "tot", ["add", var("tot"), var("a")]]], []],
                ["ret", var("tot")],
            ],
        )
    )
    F.append(
        fn(
            "nestloop",
            ["p"],
            [
                [
                    "for",
                    "i",
                    [
                        [
                            "for",
                            "j",
                            [
                                ["bind", "x", ["add", var("i"), var("j")]],
                                ["if", [["break"]], []],
                                use("x"),
                            ],
                            [],
                        ],
                        [
                            "try",
                            [["if", [["cont"]], []], ["pt"]],
                            [],
                            [],
                            [["bind", "fin", V]],
                        ],
                    ],
                    [],
                ],
                ["ret", var("p")],
            ],
        )
    )
    F.append(
        fn(
            "whileloop",
            ["p"],
            [
                ["bind", "x", V],
                ["while", [["bind", "x", V], ["if", [["break"]], []], ["pt"]], [["bind", "e", V]]],
                ["ret", var("x")],
            ],
        )
    )
    F.append(
        fn(
            "tryexc",
            ["p"],
            [
                [
                    "try",
                    [
                        ["pt"],
                        ["bind", "x", V],
                        ["if", [["raise"]], []],
                        ["if", [["raiseo"]], []],
                        ["bind", "y", V],
                    ],
                    [
                        ["ProgErr", "e", [use("e"), ["bind", "h", V], ["pt"]]],
                        ["EnvFault", "e2", [["bind", "h", V]]],
                    ],
                    [["bind", "els", V]],
                    [["bind", "fin", V], ["pt"]],
                ],
                ["ret", var("fin")],
            ],
        )
    )
    F.append(
        fn(
            "bareexc",
            ["p"],
            [
                [
                    "try",
                    [["pt"], ["if", [["raise"]], []], ["bind", "x", V]],
                    [[None, None, [["bind", "h", V]]]],
                    [],
                    [],
                ],
                ["ret", var("p")],
            ],
        )
    )
    F.append(
        fn(
            "withcm",
            ["p"],
            [
                ["with", "w", [use("w"), ["bind", "x", V], ["pt"], ["if", [["raise"]], []]]],
                ["with", None, [["bind", "y", V]]],
                ["ret", var("p")],
            ],
        )
    )
    F.append(
        fn(
            # the body ends in a with-block that ends in return: if the context manager swallows an
            # exception raised inside, the function falls off its end after all
            "withret",
            ["p"],
            [
                ["bind", "x", V],
                ["with", "w", [["if", [["raise"]], []], ["with", None, [["if", [["raise"]], []], ["bind", "y", V], ["ret", var("y")]]]]],
            ],
        )
    )
    F.append(
        fn(
            "imports",
            ["p"],
            [
                ["import", "math", "m"],
                ["from", "math", "floor", None],
                ["import", "os.path", None],
                ["bind", "x", ["call", "floor", [V]]],
                use("x"),
                ["ret", var("x")],
            ],
        )
    )
    F.append(
        fn(
            "nesteddefs",
            ["p"],
            [
                ["def", "inner", V],
                ["class", "Loc", V],
                ["bind", "x", ["call", "inner", []]],
                ["bind", "y", ["lam", V]],
                ["bind", "z", ["comp", V]],
                ["bind", "k", ["mcall", "Loc()", "m", []]],
                use("x", "y", "z", "k"),
                ["ret", var("x")],
            ],
        )
    )
    F.append(
        fn(
            "globalw",
            ["p"],
            [["bind", "G0", V], ["bind", "x", var("G1")], use("x"), ["ret", var("x")]],
            globals=["G0"],
        )
    )
    F.append(
        fn(
            "retnone",
            ["p"],
            [["bind", "x", V], ["if", [["ret", None]], []], use("x")],
        )
    )
    F.append(
        fn(
            "kwargs",
            ["p", "q"],
            [use("p", "q", "va", "k", "kw"), ["bind", "x", V], ["ret", var("x")]],
            defaults=1,
            vararg="va",
            kwonly=["k"],
            kwarg="kw",
        )
    )
    F.append(
        fn(
            "callsother",
            ["p"],
            [
                ["bind", "r", ["call", "plain", [V, var("p")]]],
                ["bind", "s", ["call", "aug", [var("r")]]],
                use("r", "s"),
                ["ret", var("s")],
            ],
        )
    )
    F.append(
        fn(
            "gen",
            ["p"],
            [
                ["bind", "x", V],
                ["yield", var("x"), "r"],
                use("r"),
                ["while", [["bind", "x", V], ["yield", var("x"), None], ["pt"]]],
                ["yield", V, "r2"],
                ["ret", var("x")],
            ],
        )
    )
    F.append(
        fn(
            "genloop",
            ["p"],
            [
                [
                    "for",
                    "i",
                    [
                        [
                            "try",
                            [["yield", var("i"), "got"], use("got")],
                            [],
                            [],
                            [["bind", "fin", V]],
                        ]
                    ],
                    [],
                ],
            ],
        )
    )
    F.append(
        fn(
            # thrown into while suspended, it catches and yields again with no binding in between
            "genretry",
            ["p"],
            [
                ["bind", "budget", V],
                ["while", [["try", [["yield", var("budget"), None]], [["Exception", None, [["pt"]]]], [], []]]],
                ["bind", "done", V],
                ["ret", var("budget")],
            ],
        )
    )
    F.append(
        fn(
            # StopIteration thrown into it while suspended: caught by name, at the yield
            "genstop",
            ["p"],
            [
                ["bind", "budget", V],
                ["while", [["try", [["yield", var("budget"), None]], [["StopIteration", None, [["pt"]]]], [], []]]],
                ["bind", "done", V],
                ["ret", var("budget")],
            ],
        )
    )
    F.append(
        fn(
            # the delegate of genyf: it catches what is thrown in, carries on, and has a finally
            "gensub",
            ["p"],
            [
                ["bind", "s", V],
                ["try",
                 [["while", [["try", [["yield", var("s"), "t"], use("t")], [["Exception", None, [["pt"]]]], [], []]]]],
                 [], [], [["pt"]]],
                ["ret", var("s")],
            ],
        )
    )
    F.append(
        fn(
            # delegates with ``yield from``: next / send / throw / close all go through to the delegate
            "genyf",
            ["p"],
            [
                ["bind", "x", V],
                ["bind", "r", ["yieldfrom_e", ["call", "gensub", [var("p")]]]],
                use("r"),
                ["yield", var("x"), None],
                ["ret", var("r")],
            ],
        )
    )
    F.append(
        fn(
            "shadow",
            ["p"],
            [
                # 'hash' and 'round' are module-level functions of the actor module that
                # shadow the builtins of the same name; 'len' is the real builtin
                ["bind", "x", ["call", "hash", [var("p")]]],
                ["bind", "y", ["call", "round", [V]]],
                ["bind", "n", ["call", "len", [["tup", [var("x"), var("y")]]]]],
                use("x", "y", "n"),
                ["ret", var("y")],
            ],
        )
    )
    F.append(fn("deco", ["p"], [["bind", "x", V], use("x"), ["ret", var("x")]], kind="deco"))
    classes = [
        {
            "name": "K",
            "methods": [
                fn(
                    "meth",
                    ["self", "p"],
                    [
                        ["bind", "x", V],
                        ["bind", ["attr", "self", "n"], var("x")],
                        use("x"),
                        ["ret", var("x")],
                    ],
                ),
            ],
        }
    ]
    closures = [
        {
            "factory": "_mk_clo",
            "free": {"c0": 41},
            "fn": fn(
                "clo",
                ["p"],
                [["bind", "x", ["add", var("c0"), V]], use("x"), ["ret", var("x")]],
                free=["c0"],
                dyn_name=True,
            ),
            # the same factory called a second time: two function objects, one code object
            "twins": {"clo2": {"c0": 52}},
        },
        {
            "factory": "_mk_clow",
            "free": {"c1": 43},
            "fn": fn(
                "clow",
                ["p"],
                [["bind", "c1", ["add", var("c1"), V]], use("c1"), ["ret", var("c1")]],
                nonlocals=["c1"],
                free=["c1"],
            ),
        },
    ]
    return {
        "functions": F,
        "classes": classes,
        "closures": closures,
        "instances": [{"name": "k1", "cls": "K", "key": 1}],
        "module_globals": [
            "def hash(v):",
            "    ENV.use('shadow.hash', v)",
            "    return ('h', v)",
            "",
            "def round(v):",
            "    ENV.use('shadow.round', v)",
            "    return v + 1",
            "",
        ],
    }


# ---------------------------------------------------------------------------
# dispatcher family for call-path properties (C03, C07, C05...)


def dispatcher(name, local, callees):
    """def NAME(p): LOCAL = val; x = val; while cond: pick {rebind, call..., raise, return}"""
    arms = [
        [["bind", local, V]],
        # (one of the two places that bind x carries a tag, the other does not)
        [["ann", "x", '"@A"', V]],
    ]
    for c in callees:
        arms.append([["bind", "r", ["call", c, [V]]]])
    arms.append([["raise"]])
    arms.append([["ret", V]])
    return fn(
        name,
        ["p"],
        [
            ["bind", local, V],
            ["bind", "x", V],
            [
                "while",
                [
                    ["pick", arms],
                ],
            ],
            ["ret", var(local)],
        ],
    )


def calltree_program():
    names = ["A", "B", "C", "D"]
    F = []
    for n in names:
        F.append(dispatcher(n, n.lower(), names + ["M"]))
    # E: a dispatcher that survives whatever its callees raise (an injected subscriber failure
    # included) and carries on calling; nobody calls it, it is an entry point and outermost level
    e = dispatcher("E", "e", names + ["M"])
    e["body"][2] = ["while", [["try", [e["body"][2][1][0]], [["Exception", None, [["bind", "x", V]]]], [], []]]]
    F.append(e)
    # M: an intermediate nobody names in a selector (stays un-instrumented)
    F.append(
        fn(
            "M",
            ["p"],
            [
                ["bind", "m", V],
                ["while", [["pick", [[["bind", "r", ["call", n, [V]]]] for n in names]]]],
                ["ret", var("m")],
            ],
        )
    )
    # catcher: calls and swallows the program exception (re-entry after raise)
    F.append(
        fn(
            "S",
            ["p"],
            [
                ["bind", "s", V],
                [
                    "while",
                    [
                        [
                            "try",
                            [["pick", [[["bind", "r", ["call", n, [V]]]] for n in names]]],
                            [["ProgErr", "e", [["bind", "s", V]]]],
                            [],
                            [],
                        ]
                    ],
                ],
                ["ret", var("s")],
            ],
        )
    )
    return {"functions": F}


def loops_program():
    """Loop programs over small integers for value conditions (C12)."""
    F = [
        fn(
            "L",
            ["p"],
            [
                ["bind", "n", V],
                [
                    "for",
                    "i",
                    [
                        ["bind", "j", V],
                        ["bind", "x", ["add", var("i"), var("j")]],
                        ["if", [["bind", "n", V]], []],
                        use("i", "j", "x", "n"),
                    ],
                    [],
                ],
                ["ret", var("n")],
            ],
        ),
        fn(
            "outer",
            ["a"],
            [
                ["bind", "b", V],
                [
                    "while",
                    [
                        ["bind", "b", V],
                        ["bind", "r", ["call", "inner", [V]]],
                        use("b", "r"),
                    ],
                ],
                ["ret", var("b")],
            ],
        ),
        fn(
            "inner",
            ["c"],
            [
                ["bind", "d", V],
                ["for", "k", [["bind", "e", ["add", var("k"), var("c")]], use("e")], []],
                ["ret", var("d")],
            ],
        ),
        # a coroutine primed before the variable its selector is conditioned on is first bound:
        # prod starts cons, advances it to its first yield, and only then loops over k, sending
        fn(
            "cons",
            ["c"],
            [
                ["bind", "d", V],
                ["while", [["yield", var("d"), "item"], use("item")]],
                ["ret", var("d")],
            ],
        ),
        fn(
            "prod",
            ["a"],
            [
                ["bind", "g", ["call", "cons", [V]]],
                ["expr", ["next", "g"]],
                ["for", "k", [["bind", "r", ["mcall", "g", "send", [var("k")]]], use("r")], []],
                ["expr", ["mcall", "g", "close", []]],
                ["ret", var("a")],
            ],
            mutable=["g"],
        ),
    ]
    return {"functions": F}


def recv_program():
    """Method receivers (C13): plain, subclass, value-equal, unhashable, decorated, property."""

    def body(local):
        return [["bind", local, V], use(local, "p"), ["ret", var(local)]]

    classes = [
        {"name": "K", "methods": [
            fn("meth", ["self", "p"], body("x")),
            # a method that calls another method on its own receiver (K.run2 > k1.meth > x)
            fn("run2", ["self", "p"], [["bind", "y", V], ["bind", "r", ["mcall", "self", "meth", [var("p")]]],
                                       use("y", "r"), ["ret", var("y")]]),
            # a method that calls a method on *another*, named instance (k1.cross > k2.meth > x)
            fn("cross", ["self", "p"], [["bind", "y", V], ["bind", "r", ["mcall", "I_k2", "meth", [var("p")]]],
                                        use("y", "r"), ["ret", var("y")]]),
            # a method that calls a plain function (call paths through a receiver: k1.run > helper > v)
            fn("run", ["self", "p"], [["bind", "x", V], ["bind", "r", ["call", "helper", [var("p")]]],
                                      use("x", "r"), ["ret", var("x")]]),
        ]},
        {"name": "Sub", "base": "K", "init": False, "methods": [fn("other", ["self", "p"], body("y"))]},
        {"name": "E", "eq": "eq", "methods": [fn("meth", ["this", "p"], body("x"))]},
        {"name": "N", "eq": "nohash", "methods": [fn("meth", ["self", "p"], body("x"))]},
        # instances cannot be compared (array-like __eq__)
        {"name": "R", "eq": "raises", "methods": [fn("meth", ["self", "p"], body("x"))]},
        # instances are empty containers: false in a boolean context
        {"name": "Z", "falsy": True, "methods": [fn("meth", ["me", "p"], body("x"))]},
        {
            "name": "W",
            "methods": [
                fn("dm", ["me", "p"], body("x"), kind="deco"),
                fn("prop", ["self"], [["bind", "x", V], use("x"), ["ret", var("x")]], kind="prop"),
            ],
            "nested": [{"name": "In", "methods": [fn("meth", ["self", "p"], body("x"))]}],
        },
    ]
    F = [
        fn("meth", ["p"], body("x")),  # plain namesake of the methods
        fn("helper", ["p"], [["bind", "v", V], use("v", "p"), ["ret", var("v")]]),
        fn("other", ["p"], body("y")),
    ]
    inst = [
        {"name": "k1", "cls": "K", "key": 1},
        {"name": "k2", "cls": "K", "key": 1},
        {"name": "s1", "cls": "Sub", "key": 1},
        {"name": "e1", "cls": "E", "key": 7},
        {"name": "e2", "cls": "E", "key": 7},
        {"name": "e3", "cls": "E", "key": 8},
        {"name": "n1", "cls": "N", "key": 7},
        {"name": "n2", "cls": "N", "key": 7},
        {"name": "r1", "cls": "R", "key": 1},
        {"name": "r2", "cls": "R", "key": 2},
        {"name": "z1", "cls": "Z", "key": 1},
        {"name": "z2", "cls": "Z", "key": 2},
        {"name": "w1", "cls": "W", "key": 1},
        {"name": "w2", "cls": "W", "key": 2},
        {"name": "i1", "cls": "W.In", "key": 1},
        {"name": "i2", "cls": "W.In", "key": 1},
    ]
    return {"functions": F, "classes": classes, "instances": inst}


def reg_program():
    """Every placement of a function that has an absolute reference (C14)."""
    prog = recv_program()

    def body(local):
        return [["bind", local, V], use(local, "p"), ["ret", var(local)]]

    prog["functions"] += [
        fn("top", ["p"], body("x")),
        fn("deco", ["p"], body("x"), kind="deco"),
        # has an absolute reference like any other function, but ptera cannot instrument it: every
        # activation naming it is refused (it is never called)
        fn("coro", ["p"], body("x"), **{"async": True}),
    ]
    prog["closures"] = [
        # (a true closure: it reads the variable of its factory)
        {"factory": "mk", "free": {"c0": 41},
         "fn": fn("inner", ["p"], [["bind", "x", V], use("x", "p", "c0"), ["ret", var("x")]], free=["c0"])},
    ]
    return prog


def decl_program():
    """Declared-only variables and conditionally used undefined globals (C16)."""
    F = [
        fn("d1", ["p"], [["ann", "x", "int", None], use("x", "p"), ["bind", "y", ["add", var("x"), V]], ["ret", var("y")]]),
        fn(
            # a generator that calls a declaring function each time it runs again: the declaration
            # is supplied along the call path dstream > d1 > x
            "dstream",
            ["p"],
            [
                ["bind", "s", V],
                ["while", [["bind", "r", ["call", "d1", [V]]], ["yield", var("r"), None]]],
                ["ret", var("s")],
            ],
        ),
        fn(
            "d2",
            ["p"],
            [
                ["bind", "y", V],
                ["if", [["ann", "x", '"@A & @B"', None], use("x"), ["bind", "y", var("x")]], [["bind", "z", V]]],
                ["ret", var("y")],
            ],
        ),
        fn(
            "d3",
            ["p", "q"],
            [
                ["ann", "a", "int", None],
                ["bind", "y", V],
                ["ann", "b", "int", None],
                use("a", "b", "y"),
                ["ret", ["add", var("a"), var("b")]],
            ],
        ),
        fn(
            "d4",
            ["p"],
            [
                # the same variable declared on both branches: every declaration
                # that is *executed* demands a value, whatever came earlier in the source
                ["if", [["ann", "x", "int", None], ["bind", "y", ["add", var("x"), V]]],
                       [["ann", "x", "int", None], ["bind", "y", var("x")]]],
                use("x", "y"),
                ["ret", var("y")],
            ],
        ),
        fn(
            "d5",
            ["p"],
            [
                ["for", "i", [["ann", "x", '"@A"', None], use("x", "i")], []],
                ["if", [["bind", "z", V]], [["ann", "z", "int", None]]],
                ["ret", var("z")],
            ],
        ),
        fn(
            "u1",
            ["p"],
            [
                ["ann", "y", '"@A"', V],
                ["if", [use("UG1", "y")], []],
                ["bind", "z", ["add", var("y"), var("G1")]],
                ["ret", var("z")],
            ],
        ),
        fn(
            "u3",
            ["p"],
            [
                # G1 exists when the module is loaded; the scenario may delete / redefine it between calls
                ["ann", "y", '"@A"', V],
                ["if", [["bind", "z", ["add", var("y"), var("G1")]], use("z")], [["bind", "z", var("y")]]],
                ["ret", var("z")],
            ],
        ),
        fn(
            # reads a global that is defined and bound to None (and one that holds a number)
            "u4",
            ["p"],
            [
                ["ann", "y", '"@A"', V],
                use("GN", "y"),
                ["bind", "z", ["add", var("y"), var("G0")]],
                ["ret", ["tup", [var("z"), var("GN")]]],
            ],
        ),
        fn(
            "u2",
            ["p"],
            [
                ["try", [["if", [use("UG2")], []], ["bind", "y", V]], [["NameError", "e", [["bind", "y", V]]]], [], []],
                ["ret", var("y")],
            ],
        ),
    ]
    return {"functions": F}


def genctx_program():
    """Generators suspended while their caller carries on (C09)."""
    F = [
        fn("g", ["p"], [["bind", "a", V], use("a"), ["ret", var("a")]]),
        fn(
            "gen",
            ["p"],
            [
                ["bind", "x", V],
                [
                    "while",
                    [
                        ["pick", [[["bind", "r", ["call", "g", [V]]]], [["bind", "x", V]], [["pass"]]]],
                        ["yield", var("x"), None],
                    ],
                ],
                ["bind", "r", ["call", "g", [V]]],
            ],
        ),
        fn(
            "gen2",
            ["p"],
            [
                ["bind", "y", V],
                ["for", "i", [["bind", "r", ["call", "g", [var("i")]]], ["yield", var("i"), None]], []],
            ],
        ),
        fn(
            "gen3",
            ["p"],
            [
                ["bind", "z", V],
                ["yieldfrom", ["call", "gen2", [V]]],
                ["bind", "r", ["call", "g", [V]]],
                ["yield", var("z"), None],
            ],
        ),
        fn(
            # catches what is thrown into it and yields again, binding nothing in between
            "gen4",
            ["p"],
            [
                ["bind", "x", V],
                ["while", [["try", [["yield", var("x"), None]], [["Exception", None, [["pt"]]]], [], []]]],
                ["bind", "r", ["call", "g", [V]]],
            ],
        ),
        fn(
            # thrown into, it calls g from its handler before it binds anything
            "gen6",
            ["p"],
            [
                ["bind", "x", V],
                ["while", [["try", [["yield", var("x"), None]], [["Exception", None, [["bind", "r", ["call", "g", [V]]]]]], [], []]]],
                ["bind", "r", ["call", "g", [V]]],
            ],
        ),
        fn(
            # advances a generator that somebody else created (the module global GEN) from inside
            # its own call: the generator then runs under this activation
            "pump",
            ["p"],
            [
                ["bind", "q", V],
                ["bind", "r", ["next", "GEN"]],
                ["bind", "s", ["call", "g", [V]]],
                ["ret", var("r")],
            ],
        ),
        fn(
            # a generator that drives another one: both are suspended at the same time, and the
            # inner one runs again only when the outer one is advanced
            "gen7",
            ["p"],
            [
                ["bind", "w", V],
                ["bind", "inner", ["call", "gen2", [V]]],
                ["while", [["bind", "r", ["next", "inner"]], ["yield", var("r"), None]]],
                ["bind", "r", ["call", "g", [V]]],
            ],
            mutable=["inner"],
        ),
        fn(
            # coroutine style: suspends at a bare yield (it hands nothing out)
            "gen5",
            ["p"],
            [
                ["bind", "x", V],
                ["while", [["yield", None, "item"], ["bind", "r", ["call", "g", [V]]]]],
                ["bind", "r", ["call", "g", [V]]],
            ],
        ),
        # driver: an instrumented function that itself drives generators and calls g
        fn(
            "D",
            ["p"],
            [
                ["bind", "d", V],
                ["bind", "it", ["call", "gen", [V]]],
                ["bind", "it2", ["call", "gen2", [V]]],
                [
                    "while",
                    [
                        [
                            "pick",
                            [
                                [["bind", "r", ["next", "it"]]],
                                [["bind", "r", ["next", "it2"]]],
                                [["bind", "r", ["call", "g", [V]]]],
                                [["close", "it"]],
                                [["close", "it2"]],
                                [["bind", "d", V]],
                            ],
                        ]
                    ],
                ],
                ["bind", "r", ["call", "g", [V]]],
                ["ret", var("d")],
            ],
        ),
    ]
    return {"functions": F}


PROGRAMS = {
    "genctx": genctx_program,
    "decl": decl_program,
    "reg": reg_program,
    "recv": recv_program,
    "loops": loops_program,
    "forms": forms_program,
    "calltree": calltree_program,
}


def get(name):
    return PROGRAMS[name]()
