"""Seeded composition of actor programs from the statement forms of the IR
(DESIGN.md 3.2, "seeded compositions"; swarm style: size, nesting and the set of
enabled forms vary per run).

The generated program is *workload*: it widens the family of programs over which
tapes, fault plans, driver schedules and probe histories are searched; it does
not turn a for-all-programs claim into a decided one.
"""

V = ["val"]

FORMS = [
    "bind", "bindvar", "tuple", "nested", "star", "chain", "chainstore", "aug", "ann", "attr", "sub",
    "walrus", "nestedwalrus", "if", "ifelse", "ifchain", "for", "forelse", "fortuple", "while", "whileelse",
    "try", "tryelse", "tryfinally", "finallyreturn", "augattr",
    "with", "import", "nesteddef", "use", "pt", "ret", "retnone", "raise", "call",
]
NAMES = ["a", "b", "c", "d", "e", "f", "g", "h"]


class Gen:
    def __init__(self, rng, is_gen=False, helper=None, max_depth=3, budget=14, enabled=None):
        self.rng = rng
        self.is_gen = is_gen
        self.helper = helper
        self.max_depth = max_depth
        self.budget = budget
        self.enabled = enabled or set(FORMS)
        self.ints = set()  # names very likely bound to an int by now
        self.bound = set()
        self.objs = set()
        self.nid = 0

    def name(self):
        return self.rng.choice(NAMES)

    def intvar(self):
        return self.rng.choice(sorted(self.ints)) if self.ints else None

    def expr(self):
        r = self.rng.random()
        iv = self.intvar()
        if r < 0.5 or iv is None:
            return V
        if r < 0.8:
            return ["add", ["var", iv], V]
        if r < 0.9 and self.helper:
            return ["call", self.helper, [["var", iv]]]
        return ["var", iv]

    def mark_int(self, n):
        self.ints.add(n)
        self.bound.add(n)
        self.objs.discard(n)

    def mark_other(self, n):
        self.ints.discard(n)
        self.bound.add(n)
        self.objs.discard(n)

    def block(self, depth, in_loop, n=None):
        out = []
        n = n if n is not None else self.rng.randint(1, 4)
        for _ in range(n):
            if self.budget <= 0:
                break
            st = self.stmt(depth, in_loop)
            if st is None:
                continue
            out.extend(st if isinstance(st[0], list) else [st])
            if out and out[-1][0] in ("ret", "raise", "break", "cont"):
                break
        return out or [["pt"]]

    def stmt(self, depth, in_loop):
        rng = self.rng
        self.budget -= 1
        forms = [f for f in self.enabled]
        kind = rng.choice(sorted(forms))
        if depth >= self.max_depth and kind in (
            "if", "ifelse", "ifchain", "for", "forelse", "fortuple", "while", "whileelse", "try", "tryelse",
            "tryfinally", "finallyreturn", "with"):
            kind = "bind"
        if kind == "bind":
            x = self.name()
            e = self.expr()
            self.mark_int(x)
            return ["bind", x, e]
        if kind == "bindvar":
            src = sorted(self.bound)
            if not src:
                return None
            y = rng.choice(src)
            x = self.name()
            st = ["bind", x, ["var", y]]
            if y in self.ints:
                self.mark_int(x)
            else:
                self.mark_other(x)
            return st
        if kind == "tuple":
            x, y = rng.sample(NAMES, 2)
            k = rng.choice(["tuple", "list", "gen", "dict", "iter", "tuple?", "list?", "gen?", "iter?"])
            self.mark_int(x)
            self.mark_int(y)
            return ["bind", ["t", [x, y]], ["seq", 2, k]]
        if kind == "nested":
            x, y, z = rng.sample(NAMES, 3)
            for v in (x, y, z):
                self.mark_int(v)
            return ["bind", ["t", [x, ["t", [y, z]]]], ["tup", [V, ["tup", [V, V]]]]]
        if kind == "star":
            x, y, z = rng.sample(NAMES, 3)
            self.mark_int(x)
            self.mark_other(y)
            self.mark_int(z)
            return ["bind", ["t", [x, ["*", y], z]], ["seq", rng.randint(2, 4), rng.choice(["list", "tuple", "gen", "list?"])]]
        if kind == "chain":
            x, y = rng.sample(NAMES, 2)
            self.mark_int(x)
            self.mark_int(y)
            return ["chain", [x, y], self.expr()]
        if kind == "chainstore":
            if not self.objs:
                o = self.name()
                self.bound.add(o)
                self.ints.discard(o)
                self.objs.add(o)
                return ["bind", o, ["obj"]]
            o = rng.choice(sorted(self.objs))
            x = self.name()
            while x == o:
                x = self.name()
            tg = [x, ["attr", o, "n"], ["sub", o, ["var", x]], ["attr", o, "m"]]
            rng.shuffle(tg)
            self.mark_int(x)
            return ["chain", tg[: rng.randint(2, 4)] if x in tg[:2] else [x] + tg[:2], self.expr()]
        if kind == "aug":
            iv = self.intvar()
            if iv is None:
                return None
            if rng.random() < 0.25:
                # x += (y := e): the right-hand side binds a name of its own
                y = self.name()
                if y != iv:
                    e = self.expr()
                    self.mark_int(y)
                    return ["aug", iv, ["walrus", y, e]]
            return ["aug", iv, self.expr()]
        if kind == "ann":
            x = self.name()
            self.mark_int(x)
            return ["ann", x, rng.choice(["int", '"@A"', '"@A & @B"']), self.expr()]
        if kind in ("attr", "sub"):
            if not self.objs or rng.random() < 0.4:
                o = self.name()
                self.bound.add(o)
                self.ints.discard(o)
                self.objs.add(o)
                return ["bind", o, ["obj"]]
            o = rng.choice(sorted(self.objs))
            if kind == "attr":
                return ["bind", ["attr", o, rng.choice(["n", "m"])], self.expr()]
            return ["bind", ["sub", o, V], self.expr()]
        if kind == "walrus":
            x = self.name()
            self.mark_int(x)
            body = self.block(depth + 1, in_loop, 1)
            return ["ifx", ["walrus", x, V], body, []]
        if kind == "nestedwalrus":
            x, y = rng.sample(NAMES, 2)
            self.mark_int(x)
            self.mark_int(y)
            if rng.random() < 0.5:
                z = self.name()
                self.mark_int(z)
                return ["bind", y, ["add", ["walrus", x, ["add", ["walrus", z, V], V]], V]]
            return ["bind", y, ["add", ["walrus", x, V], V]]
        if kind == "if":
            return ["if", self.block(depth + 1, in_loop), []]
        if kind == "ifelse":
            return ["if", self.block(depth + 1, in_loop), self.block(depth + 1, in_loop)]
        if kind == "ifchain":
            # if / elif chain without else whose branches all leave the function
            def leave():
                return [rng.choice([["ret", self.expr()], ["ret", None], ["raise"]])]

            return ["if", leave(), [["if", leave(), []]]]
        if kind in ("for", "forelse"):
            i = self.name()
            self.mark_int(i)
            body = self.block(depth + 1, True)
            orelse = self.block(depth + 1, in_loop, 1) if kind == "forelse" else []
            return ["for", i, body, orelse]
        if kind == "fortuple":
            x, y = rng.sample(NAMES, 2)
            self.mark_int(x)
            if rng.random() < 0.3:
                # for x, *y in ...
                self.mark_other(y)
                return ["for", ["t", [x, ["*", y]]], self.block(depth + 1, True), []]
            self.mark_int(y)
            return ["for", ["t", [x, y]], self.block(depth + 1, True), []]
        if kind == "while":
            return ["while", self.block(depth + 1, True)]
        if kind == "whileelse":
            return ["while", self.block(depth + 1, True), self.block(depth + 1, in_loop, 1)]
        if kind == "augattr":
            if not self.objs:
                return None
            o = rng.choice(sorted(self.objs))
            return [["bind", ["attr", o, "acc"], V], ["augattr", o, "acc", self.expr()]]
        if kind == "finallyreturn":
            # a return in a finally clause swallows whatever was in flight
            return ["try", self.block(depth + 1, in_loop), [], [], [["if", [["ret", self.expr()]], []]]]
        if kind in ("try", "tryelse", "tryfinally"):
            body = self.block(depth + 1, in_loop)
            handlers = []
            if kind in ("try", "tryelse") or rng.random() < 0.5:
                exc = rng.choice(["ProgErr", "EnvFault", "Exception", None])
                asn = rng.choice([None, "e", self.name()]) if exc else None
                if asn:
                    self.mark_other(asn)
                hb = self.block(depth + 1, in_loop, rng.randint(1, 2))
                if asn:
                    self.bound.discard(asn)  # python unbinds the name after the handler
                handlers.append([exc, asn, hb])
            final = self.block(depth + 1, in_loop, 1) if kind == "tryfinally" else []
            if not handlers and not final:
                final = [["pt"]]
            orelse = self.block(depth + 1, in_loop, 1) if (kind == "tryelse" and handlers) else []
            return ["try", body, handlers, orelse, final]
        if kind == "with":
            asn = rng.choice([None, self.name()])
            if asn:
                self.mark_int(asn)
            return ["with", asn, self.block(depth + 1, in_loop)]
        if kind == "import":
            return rng.choice([["import", "math", "m"], ["from", "math", "floor", None], ["import", "os.path", None]])
        if kind == "nesteddef":
            self.nid += 1
            x = self.name()
            self.mark_int(x)
            which = rng.random()
            if which < 0.35:
                return [["def", f"inner{self.nid}", V], ["bind", x, ["call", f"inner{self.nid}", []]]]
            if which < 0.6:
                return [["class", f"Loc{self.nid}", V], ["bind", x, ["mcall", f"Loc{self.nid}()", "m", []]]]
            if which < 0.8:
                return ["bind", x, ["lam", V]]
            self.mark_other(x)
            if rng.random() < 0.5:
                # walrus inside the comprehension: binds in this function
                w = self.name()
                while w == x:
                    w = self.name()
                self.mark_int(w)
                return [["bind", w, ["const", 0]], ["bind", x, ["comp", ["walrus", w, ["add", ["var", w], V]]]]]
            return ["bind", x, ["comp", V]]
        if kind == "use":
            vs = sorted(self.bound)
            if not vs:
                return ["pt"]
            return ["use", rng.sample(vs, min(len(vs), rng.randint(1, 3)))]
        if kind == "pt":
            return ["pt"]
        if kind == "ret":
            return ["if", [["ret", self.expr()]], []]
        if kind == "retnone":
            return ["if", [["ret", None]], []]
        if kind == "raise":
            return ["if", [[rng.choice(["raise", "raiseo"])]], []]
        if kind == "call":
            if not self.helper:
                return None
            x = self.name()
            self.mark_int(x)
            return ["bind", x, ["call", self.helper, [self.expr()]]]
        return None


def gen_function(rng, name, is_gen=False, helper=None, swarm=None):
    enabled = set(swarm) if swarm else set(FORMS)
    g = Gen(rng, is_gen=is_gen, helper=helper, max_depth=rng.choice([1, 2, 2, 3]),
            budget=rng.randint(5, 16), enabled=enabled)
    params = ["p"] + (["q"] if rng.random() < 0.4 else [])
    extra = {}
    if rng.random() < 0.3 and name == "rf":
        # the full parameter zoo: positional-only, *args, keyword-only, **kwargs
        if rng.random() < 0.5:
            extra["posonly"] = 1
        if rng.random() < 0.5:
            extra["vararg"] = "va"
        if rng.random() < 0.6:
            extra["kwonly"] = ["k"]
        if rng.random() < 0.4:
            extra["kwarg"] = "kw"
    if rng.random() < 0.2:
        extra["doc"] = "generated actor; its docstring must survive instrumentation"
    if rng.random() < 0.12 and name == "rf":
        extra["kind"] = "deco"
    if rng.random() < 0.15:
        extra["pann"] = {"p": rng.choice(["int", '"@A"', '"@A & @B"'])}
    for p in params + extra.get("kwonly", []):
        g.mark_int(p)
    for p in (extra.get("vararg"), extra.get("kwarg")):
        if p:
            g.mark_other(p)
    body = g.block(0, False, rng.randint(2, 6))
    if is_gen:
        # sprinkle yields at top level and inside the first loop we find
        ys = rng.randint(1, 3)
        for _ in range(ys):
            into = rng.choice([None, None, g.name()])
            pos = rng.randint(0, len(body))
            body.insert(pos, ["yield", V, into])
        for st in body:
            if st[0] in ("for", "while") and rng.random() < 0.7:
                target = st[2] if st[0] == "for" else st[1]
                target.insert(rng.randint(0, len(target)), ["yield", V, rng.choice([None, g.name()])])
                break
    tail = rng.random()
    if body[-1][0] not in ("ret", "raise"):
        if tail < 0.5:
            body.append(["ret", g.expr()])
        elif tail < 0.65:
            body.append(["ret", None])
        # else: falls off the end
    fn = {"name": name, "params": params, "body": body}
    fn.update(extra)
    if len(params) == 2 and rng.random() < 0.5:
        fn["defaults"] = 1
    _sanitize(fn)
    return fn


def _sanitize(fn):
    """A name that is read but assigned nowhere in the function would be a
    *global* (an undefined one): replace such reads, they are another property's
    business (C16)."""
    from . import ir

    assigned = set(ir.bound_names(fn))

    def fix_expr(x):
        if not isinstance(x, list) or not x:
            return x
        if x[0] == "var" and x[1] not in assigned:
            return ["val"]
        return [fix_expr(y) if isinstance(y, list) else y for y in x]

    def fix_stmts(stmts):
        out = []
        for st in stmts:
            if st[0] == "use":
                names = [n for n in st[1] if n in assigned]
                out.append(["use", names] if names else ["pt"])
            elif st[0] == "aug" and st[1] not in assigned:
                out.append(["pt"])
            else:
                new = []
                for part in st:
                    if isinstance(part, list) and part and isinstance(part[0], list) and part[0] and isinstance(part[0][0], str) and st[0] not in ("chain",):
                        # a block of statements (or, for try, a list of handlers)
                        if st[0] == "try" and part is st[2]:
                            new.append([[h[0], h[1], fix_stmts(h[2])] for h in part])
                        else:
                            new.append(fix_stmts(part))
                    elif isinstance(part, list):
                        new.append(fix_expr(part))
                    else:
                        new.append(part)
                out.append(new)
        return out

    fn["body"] = fix_stmts(fn["body"])


def gen_program(rng, want_gen=None):
    """{"functions": [...]}: a main function 'rf' (possibly a generator) and, often, a helper 'rh' it calls."""
    swarm = None
    if rng.random() < 0.6:
        k = rng.randint(6, len(FORMS))
        swarm = set(rng.sample(FORMS, k)) | {"bind", "use"}
    fns = []
    helper = None
    if rng.random() < 0.5:
        helper = "rh"
        fns.append(gen_function(rng, "rh", swarm=swarm))
    is_gen = want_gen if want_gen is not None else rng.random() < 0.3
    fns.append(gen_function(rng, "rf", is_gen=is_gen, helper=helper, swarm=swarm))
    return {"functions": fns}, is_gen
