"""C02 -- a probe's stream is exactly the binding history of its focus (DESIGN.md 4, C02)."""

from .. import ir
from ..engine1 import Engine
from .common import call_shape, fn_table, gen_faults, gen_tape, simple_sel

PROP = "C02"
JUDGE = ("C02.",)
PROGRAMS = ["forms", "genctx"]
RUNS = {"quick": 3000, "thorough": 150000}

GEN_FNS = ("gen", "genloop", "genretry", "genstop")


def gen_generator_history(rng):
    """A probe comes or goes while an instrumented generator is suspended, and the generator is
    then advanced or thrown into (gen4 catches that and yields again without binding anything):
    the streams of the probes that are active are still exactly the binding histories."""
    def sel(chain, focus):
        return {"levels": [{"fn": f, "caps": [], "sibs": []} for f in chain], "focus": {"var": focus, "as": focus}}

    choices = [(["g"], "a"), (["gen4"], "x"), (["gen4", "g"], "a"), (["gen"], "x"), (["gen2"], "i"), (["D"], "d")]
    ops = []
    for pid in ("P", "Q"):
        chain, focus = rng.choice(choices)
        ops.append({"op": "mk", "id": pid, "sels": [sel(chain, focus)], "inv": "C02.stream"})
    tape = lambda: gen_tape(rng, 6, hi=12, odd=0.6)
    gfn = rng.choice(["gen4", "gen4", "gen", "gen2"])
    ops += [{"op": "enter", "id": "P"},
            {"op": "gen_new", "gen": "g0", "fn": gfn, "nargs": 1},
            {"op": "gen_next", "gen": "g0", "tape": tape(), "faults": {}}]
    live = ["P"]
    for _ in range(rng.randint(2, 6)):
        r = rng.random()
        if r < 0.2 and "Q" not in live and not any(o == {"op": "enter", "id": "Q"} for o in ops):
            ops.append({"op": "enter", "id": "Q"})
            live.append("Q")
        elif r < 0.3 and live:
            ops.append({"op": "exit", "id": live.pop()})
        elif r < 0.55:
            ops.append({"op": "gen_throw", "gen": "g0", "tape": tape(), "faults": {}})
        elif r < 0.75:
            ops.append({"op": "gen_next", "gen": "g0", "tape": tape(), "faults": {}})
        else:
            ops.append({"op": "call", "fn": rng.choice(["g", "D"]), "nargs": 1, "tape": tape(), "faults": {}})
    ops.append({"op": "gen_close", "gen": "g0", "tape": [], "faults": {}})
    ops.append({"op": "call", "fn": "g", "nargs": 1, "tape": [], "faults": {}})
    ops.append({"op": "call", "fn": "D", "nargs": 1, "tape": tape(), "faults": {}})
    for pid in reversed(live):
        ops.append({"op": "exit", "id": pid})
    return {"prog": "genctx", "ops": ops, "relax_inflight": True, "activation_inv": "C02.activation"}


def gen_reactivation(rng, tier, quarantine=()):
    """Probes on one function come and go, and selectors that were used before are used again by
    new probes while others are live (instrumented variants and capture counts are kept between
    probes): every stream is still exactly the binding history of its variable."""
    prog, fns = fn_table("forms")
    fns = [(q, f) for q, f in fns if not _quarantined(q, quarantine) and q not in GEN_FNS and f.get("kind", "plain") == "plain"]
    qual, fnir = rng.choice(fns)
    forms = ir.bound_names(fnir)
    names = [n for n, f in forms.items() if f != {"decl"} and n not in fnir.get("free", ()) and n not in fnir.get("mutable", ())
             and not _name_quarantined(qual, n, forms[n], quarantine)]
    if not names:
        return None
    pool = [simple_sel(qual, focus=n, caps=[]) for n in rng.sample(names, min(len(names), 3))]
    ops, live, n = [], [], 0
    tl = 24 if tier == "quick" else 48
    for _ in range(rng.randint(5, 12)):
        r = rng.random()
        if r < 0.4 and len(live) < 3:
            import copy

            pid = f"p{n}"
            n += 1
            ops.append({"op": "mk", "id": pid, "sels": [copy.deepcopy(rng.choice(pool))], "style": rng.randrange(2),
                        "inv": "C02.stream", "raw": False})
            ops.append({"op": "enter", "id": pid})
            live.append(pid)
        elif r < 0.65 and live:
            ops.append({"op": "exit", "id": live.pop(rng.randrange(len(live)))})
        else:
            op = call_shape(rng, qual, fnir, "k1")
            op["tape"] = gen_tape(rng, rng.randint(0, tl))
            op["faults"] = gen_faults(rng, 30, rng.choice([0, 0, 1]))
            ops.append(op)
    op = call_shape(rng, qual, fnir, "k1")
    op["tape"] = gen_tape(rng, rng.randint(0, tl))
    op["faults"] = {}
    ops.append(op)
    for pid in live:
        ops.append({"op": "exit", "id": pid})
    return {"prog": "forms", "ops": ops, "activation_inv": "C02.activation"}


def gen(rng, tier, quarantine=()):
    if "no-generator-histories" not in quarantine and rng.random() < 0.08:
        return gen_generator_history(rng)
    if rng.random() < 0.08:
        sc = gen_reactivation(rng, tier, quarantine)
        if sc is not None:
            return sc
    prog, fns = fn_table("forms")
    fns = [(q, f) for q, f in fns if not _quarantined(q, quarantine)]
    qual, fnir = rng.choice(fns)
    if rng.random() < 0.12 and any(q in GEN_FNS for q, _ in fns):
        qual, fnir = rng.choice([(q, f) for q, f in fns if q in GEN_FNS])
    generated = None
    if "no-generated-programs" not in quarantine and rng.random() < 0.5:
        from .. import progen

        generated, is_gen = progen.gen_program(rng)
        qual, fnir = "rf", dict(ir.all_functions(generated))["rf"]
    forms = ir.bound_names(fnir)
    # closure variables are reported at entry (documented, outside the statement)
    names = [n for n, f in forms.items() if f != {"decl"} and n not in fnir.get("free", ())
             and not _name_quarantined(qual, n, forms[n], quarantine)]
    ops = []
    nprobes = rng.choice([1, 1, 2])
    for i in range(nprobes):
        focus = rng.choice(names)
        ctx = [n for n in names if n != focus and n not in fnir.get("mutable", ()) and rng.random() < 0.35][:2]
        if "param" in forms[focus]:
            ctx = [c for c in ctx if "param" not in forms[c]]
        sel = simple_sel(qual, focus=focus, caps=ctx)
        if i and rng.random() < 0.2:
            # the very same selector text as the previous probe (compiled selectors are shared)
            import copy

            sel = copy.deepcopy(ops[-2]["sels"][0])
            focus = sel["focus"]["var"]
        ops.append({"op": "mk", "id": f"p{i}", "sels": [sel], "style": ops[-2]["style"] if i and sel == ops[-2]["sels"][0] else rng.randrange(2),
                    "inv": "C02.stream",
                    # raw captures are read after the operation: not for values mutated in place meanwhile
                    "raw": rng.random() < 0.3 and focus not in fnir.get("mutable", ())})
        ops.append({"op": "enter", "id": f"p{i}"})
    if "no-overridable" not in quarantine and nprobes == 2 and rng.random() < 0.12:
        # both probes are overridable and watch the same variable; the one activated later supplies a
        # value for (some of) its bindings: the earlier one is still told of every binding
        f0 = ops[0]["sels"][0]["focus"]["var"]
        if not f0.startswith("#") and f0 not in fnir.get("mutable", ()) and f0 not in fnir.get("free", ()):
            for k, how in ((0, rng.choice([["even_const", 3], ["odd_add", 2], ["const", 1]])),
                           (2, rng.choice([["const", 7], ["even_const", 42], ["add", 10]]))):
                ops[k].update({"kind": "overridable", "how": how, "count_only": True, "raw": False,
                               "sels": [simple_sel(qual, focus=f0, caps=[])]})
    tl = 24 if tier == "quick" else 48
    short = qual.split(".")[-1]
    failing = False
    if "no-failing-subscriber" not in quarantine and rng.random() < 0.1 \
            and not (short in GEN_FNS or (generated and is_gen)):
        # a subscriber of one probe fails on its k-th event: that call is cut short by it; the
        # calls after it are reported exactly as before (to every probe)
        failing = True
        ops.append({"op": "stage", "id": f"p{rng.randrange(nprobes)}", "kind": "whole", "cap": None,
                    "raises": rng.randint(1, 6)})
    for c in range(rng.randint(1, 3) + (2 if failing else 0)):
        nf = rng.choice([0, 0, 1, 1, 2])
        if (short in GEN_FNS or (generated and is_gen)) and rng.random() < 0.6:
            g = f"g{c}"
            ops.append({"op": "gen_new", "gen": g, "fn": qual, "nargs": 1})
            for _ in range(rng.randint(1, 6)):
                k = rng.choice(["gen_next"] * 4 + ["gen_send"] * 3 + ["gen_throw"] * 2 + ["gen_close"])
                ops.append({"op": k, "gen": g, "tape": gen_tape(rng, 8),
                            "faults": gen_faults(rng, 8, rng.choice([0, 0, 1]))})
                if k == "gen_throw" and rng.random() < 0.4:
                    ops[-1]["exc"] = "stop"
            ops.append({"op": "gen_close", "gen": g, "tape": [], "faults": {}})
        else:
            op = call_shape(rng, qual, fnir, "k1")
            op["tape"] = gen_tape(rng, rng.randint(0, tl))
            op["faults"] = gen_faults(rng, 30, nf)
            ops.append(op)
    if rng.random() < 0.3:
        # probes end in any order (the older one may go first)
        gone = rng.randrange(nprobes)
        ops.append({"op": "exit", "id": f"p{gone}"})
        if rng.random() < 0.5:
            # deactivating the finished probe once more must not disturb the one still active
            ops.append({"op": "exit", "id": f"p{gone}", "again": True})
        op = call_shape(rng, qual, fnir, "k1")
        op["tape"] = gen_tape(rng, 8)
        ops.append(op)
    sc = {"prog": "forms", "ops": ops, "activation_inv": "C02.activation", "exact_failures": True}
    if generated:
        sc.update({"prog": "generated", "program": generated, "prog_name": f"gen{rng.randrange(1 << 40):x}"})
    return sc


def _quarantined(qual, quarantine):
    return any(q == f"fn:{qual}" for q in quarantine)


def _name_quarantined(qual, name, forms, quarantine):
    for q in quarantine:
        if q.startswith("form:") and q[5:] in forms:
            return True
        if q == f"var:{qual}:{name}":
            return True
    return False


def run(scenario):
    return Engine(scenario, judge=JUDGE).run()
