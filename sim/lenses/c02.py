"""C02 -- a probe's stream is exactly the binding history of its focus (DESIGN.md 4, C02)."""

from .. import ir
from ..engine1 import Engine
from .common import call_shape, fn_table, gen_faults, gen_tape, simple_sel

PROP = "C02"
JUDGE = ("C02.",)
PROGRAMS = ["forms"]
RUNS = {"quick": 3000, "thorough": 150000}

GEN_FNS = ("gen", "genloop")


def gen(rng, tier, quarantine=()):
    prog, fns = fn_table("forms")
    fns = [(q, f) for q, f in fns if not _quarantined(q, quarantine)]
    qual, fnir = rng.choice(fns)
    generated = None
    if "no-generated-programs" not in quarantine and rng.random() < 0.5:
        from .. import progen

        generated, is_gen = progen.gen_program(rng)
        qual, fnir = "rf", dict(ir.all_functions(generated))["rf"]
    forms = ir.bound_names(fnir)
    # closure variables are reported at entry (documented, outside the statement)
    names = [n for n, f in forms.items() if f != {"decl"} and n not in fnir.get("free", ())
             and not _name_quarantined(qual, n, forms[n], quarantine)]
    ops = []
    nprobes = rng.choice([1, 1, 2])
    for i in range(nprobes):
        focus = rng.choice(names)
        ctx = [n for n in names if n != focus and n not in fnir.get("mutable", ()) and rng.random() < 0.35][:2]
        if "param" in forms[focus]:
            ctx = [c for c in ctx if "param" not in forms[c]]
        sel = simple_sel(qual, focus=focus, caps=ctx)
        ops.append({"op": "mk", "id": f"p{i}", "sels": [sel], "style": rng.randrange(2),
                    "inv": "C02.stream",
                    # raw captures are read after the operation: not for values mutated in place meanwhile
                    "raw": rng.random() < 0.3 and focus not in fnir.get("mutable", ())})
        ops.append({"op": "enter", "id": f"p{i}"})
    tl = 24 if tier == "quick" else 48
    short = qual.split(".")[-1]
    for c in range(rng.randint(1, 3)):
        nf = rng.choice([0, 0, 1, 1, 2])
        if (short in GEN_FNS or (generated and is_gen)) and rng.random() < 0.6:
            g = f"g{c}"
            ops.append({"op": "gen_new", "gen": g, "fn": qual, "nargs": 1})
            for _ in range(rng.randint(1, 6)):
                k = rng.choice(["gen_next"] * 4 + ["gen_send"] * 3 + ["gen_throw", "gen_close"])
                ops.append({"op": k, "gen": g, "tape": gen_tape(rng, 8),
                            "faults": gen_faults(rng, 8, rng.choice([0, 0, 1]))})
            ops.append({"op": "gen_close", "gen": g, "tape": [], "faults": {}})
        else:
            op = call_shape(rng, qual, fnir, "k1")
            op["tape"] = gen_tape(rng, rng.randint(0, tl))
            op["faults"] = gen_faults(rng, 30, nf)
            ops.append(op)
    if rng.random() < 0.3:
        ops.append({"op": "exit", "id": f"p{nprobes - 1}"})
        if rng.random() < 0.5:
            # deactivating the finished probe once more must not disturb the one still active
            ops.append({"op": "exit", "id": f"p{nprobes - 1}", "again": True})
        op = call_shape(rng, qual, fnir, "k1")
        op["tape"] = gen_tape(rng, 8)
        ops.append(op)
    sc = {"prog": "forms", "ops": ops, "activation_inv": "C02.activation"}
    if generated:
        sc.update({"prog": "generated", "program": generated, "prog_name": f"gen{rng.randrange(1 << 40):x}"})
    return sc


def _quarantined(qual, quarantine):
    return any(q == f"fn:{qual}" for q in quarantine)


def _name_quarantined(qual, name, forms, quarantine):
    for q in quarantine:
        if q.startswith("form:") and q[5:] in forms:
            return True
        if q == f"var:{qual}:{name}":
            return True
    return False


def run(scenario):
    return Engine(scenario, judge=JUDGE).run()
