"""C08 -- overlays and probes in concurrent threads do not interfere (engine E2)."""

from .. import engine2, ir
from .common import fn_table, gen_faults, gen_tape

PROP = "C08"
JUDGE = ("C08.",)
PROGRAMS = ["forms"]
RUNS = {"quick": 6000, "thorough": 80000}
RULE = ("seeded thread schedules (random / PCT / targeted pre-emption inside the tooling and call-entry code); "
        "a run is non-trivial if it delivered an event; distinct = distinct pairs of code locations adjacent "
        "across a context switch")

FNS = {"plain": 2, "aug": 1, "callsother": 1, "k1.meth": 1, "clo": 1, "deco": 1, "chain": 1, "genloop": 1}
QUAL = {"k1.meth": "K.meth"}
TARGET_FNS = ["push", "pop", "_apply", "get", "transform_for", "transform", "_tooler", "_untooler",
              "__enter__", "__exit__", "_enter", "_exit", "proceed", "__call__", "_register",
              "_install_tooling", "_uninstall_tooling", "autotool", "wrap_functions", "gen_created"]


CHAINS = {"plain": "callsother", "aug": "callsother"}  # callee -> a caller that reaches it


def gen_probe(rng, fn, table, allow_overlay=False):
    qual = QUAL.get(fn, fn)
    fnir = table[qual]
    names = [n for n, f in ir.bound_names(fnir).items() if n not in fnir.get("free", ()) and n != "self"]
    focus = rng.choice(names + ["#value"])
    levels = [{"fn": qual, "caps": [], "sibs": []}]
    if fn in CHAINS and rng.random() < 0.4:
        levels.insert(0, {"fn": CHAINS[fn], "caps": [], "sibs": []})
    kind = "overlay" if allow_overlay and rng.random() < 0.35 else "probe"
    return {"sels": [{"levels": levels, "focus": {"var": focus, "as": "foc" if focus[0] == "#" else focus}}],
            "kind": kind}


def gen_genrace(rng, tier, table):
    """A generator object outlives the code variant it was created from: one thread creates it while
    a probe is active on the generator function, the variant changes (a probe of another thread
    comes or goes) before its first step."""
    threads = []
    nthreads = rng.choice([2, 2, 3])
    for t in range(nthreads):
        rounds = []
        for _ in range(rng.choice([1, 2, 2, 3])):
            probe = gen_probe(rng, "genloop", table) if rng.random() < 0.8 else None
            calls = [{"op": "call", "fn": "genloop", "nargs": 1, "tape": gen_tape(rng, 4), "faults": {}}
                     for _ in range(rng.randint(1, 3))]
            rounds.append({"probe": probe, "calls": calls})
        threads.append({"rounds": rounds})
    sched = {"seed": rng.randrange(1 << 30), "bound": 3 if tier == "quick" else 5, "first": rng.randrange(nthreads),
             "strategy": "targeted", "p": rng.choice([0.0, 0.0, 0.01]),
             "targets": [{"fn": "gen_created", "nth": rng.choice([1, 1, 2, 3, 4])}]}
    if rng.random() < 0.4:
        sched["targets"].append({"fn": rng.choice(["push", "pop", "_apply"]), "nth": int(1.5 ** rng.uniform(0, 10))})
    return {"prog": "forms", "threads": threads, "sched": sched, "ops": [], "setup_tool": []}


def gen(rng, tier, quarantine=()):
    prog, fns = fn_table("forms")
    table = dict(fns)
    if rng.random() < 0.06:
        return gen_genrace(rng, tier, table)
    shared = rng.sample(sorted(FNS), rng.choice([1, 1, 2]))
    if rng.random() < 0.3:
        shared = ["callsother", rng.choice(["plain", "aug"])]
    nthreads = rng.choice([2, 2, 3])
    threads = []
    setup_tool = set()
    for t in range(nthreads):
        fn = rng.choice(shared)
        probe = gen_probe(rng, fn, table, allow_overlay=True) if (t < 2 or rng.random() < 0.5) else None
        if probe and probe["kind"] == "overlay":
            for lv in probe["sels"][0]["levels"]:
                setup_tool.add(lv["fn"])
        calls = []
        for _ in range(rng.randint(1, 4)):
            f = rng.choice(shared)
            # some calls are cut short by an injected failure of the environment (an exception
            # travels through the instrumented frames of this thread while the others carry on)
            calls.append({"op": "call", "fn": f, "nargs": FNS[f], "tape": gen_tape(rng, 4),
                          "faults": gen_faults(rng, 4, rng.choice([0, 0, 0, 1]))})
        rounds = [{"probe": probe, "calls": calls}]
        if rng.random() < 0.35:
            # a second round in the same thread: another probe comes after the first one is over
            # (state left by the first -- counters, cached variants -- meets the other threads)
            fn2 = rng.choice(shared)
            probe2 = gen_probe(rng, fn2, table, allow_overlay=True)
            if probe2["kind"] == "overlay":
                for lv in probe2["sels"][0]["levels"]:
                    setup_tool.add(lv["fn"])
            calls2 = [{"op": "call", "fn": f, "nargs": FNS[f], "tape": gen_tape(rng, 4)}
                      for f in (rng.choice(shared) for _ in range(rng.randint(1, 3)))]
            rounds.append({"probe": probe2, "calls": calls2})
            if rng.random() < 0.5:
                rounds.reverse()
        if rng.random() < 0.15:
            # one more round whose activation is refused (a variable the function does not have, or a
            # chain through something that cannot be instrumented): the refusal happens while the
            # other threads are under way, and must leave nothing behind -- no lock either
            fn3 = rng.choice(shared)
            q3 = QUAL.get(fn3, fn3)
            if rng.random() < 0.5:
                bad = {"levels": [{"fn": q3, "caps": [], "sibs": []}], "focus": {"var": "nosuchvar", "as": "nosuchvar"}}
            else:
                bad = {"levels": [{"fn": q3, "caps": [], "sibs": []}, {"fn": "NOTFN", "caps": [], "sibs": []}],
                       "focus": {"var": "#value", "as": "v"}}
            calls3 = [{"op": "call", "fn": f, "nargs": FNS[f], "tape": gen_tape(rng, 4)}
                      for f in (rng.choice(shared) for _ in range(rng.randint(0, 2)))]
            rounds.insert(rng.randint(0, len(rounds)), {"probe": {"sels": [bad], "kind": "probe", "expect_refusal": True},
                                                        "calls": calls3})
        for rnd in rounds:
            pr = rnd.get("probe")
            if pr and not pr.get("expect_refusal") and rng.random() < 0.3:
                # (not for a closure: the factory's products share one reference, which is
                # ambiguous by design)
                if pr["sels"][0]["levels"][0]["fn"] != "clo":
                    pr["sels"][0]["levels"][0]["ref"] = True
        threads.append({"rounds": rounds})
    bound = 3 if tier == "quick" else 5
    r = rng.random()
    sched = {"seed": rng.randrange(1 << 30), "bound": bound, "first": rng.randrange(nthreads)}
    if r < 0.2:
        sched.update({"strategy": "random", "p": rng.choice([0.002, 0.005, 0.02, 0.05, 0.1])})
    elif r < 0.45:
        # uniformly placed pre-emptions: a thread is stopped at a random point of the whole run
        # and the others run on (long windows, e.g. a whole variant compilation, get hit often)
        horizon = rng.choice([600, 2000, 6000])
        sched.update({"strategy": "step",
                      "change_points": sorted(rng.randrange(1, horizon) for _ in range(rng.choice([1, 2, 2, 3])))})
    elif r < 0.68:
        sched.update({"strategy": "inlock",
                      "nths": [int(1.6 ** rng.uniform(0, 14)) for _ in range(rng.choice([1, 1, 2]))]})
    elif r < 0.76:
        sched.update({"strategy": "pct", "prio": rng.sample(range(nthreads), nthreads),
                      "change_points": sorted(rng.randrange(1, 4000) for _ in range(rng.choice([1, 2, 3])))})
    else:
        k = rng.choice([1, 1, 2, 3])
        sched.update({"strategy": "targeted",
                      "targets": [{"fn": rng.choice(TARGET_FNS), "nth": int(1.5 ** rng.uniform(0, 15))} for _ in range(k)],
                      "p": rng.choice([0.0, 0.0, 0.01])})
        for tg in sched["targets"]:
            if tg["fn"] == "gen_created":
                tg["nth"] = rng.choice([1, 1, 2])  # between the creation of a generator and its first step
        if "genloop" in shared and rng.random() < 0.5:
            sched["targets"][0] = {"fn": "gen_created", "nth": rng.choice([1, 1, 2])}
    if "genloop" in shared and sched.get("strategy") != "targeted" and rng.random() < 0.4:
        # a generator object exists before any of its body has run: the window between its creation
        # and its first step is one statement wide, random pre-emption hardly ever lands there
        sched = {"seed": sched["seed"], "bound": bound, "first": sched["first"], "strategy": "targeted",
                 "targets": [{"fn": "gen_created", "nth": rng.choice([1, 1, 2, 3])}], "p": rng.choice([0.0, 0.0, 0.01])}
    return {"prog": "forms", "threads": threads, "sched": sched, "ops": [], "setup_tool": sorted(setup_tool)}


def run(scenario):
    return engine2.run_scenario(scenario)
