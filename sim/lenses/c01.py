"""C01 -- transparency lens (DESIGN.md 4, C01)."""

from .. import ir
from ..engine1 import Engine
from .common import call_shape, fn_table, gen_faults, gen_tape, simple_sel

PROP = "C01"
JUDGE = ("C01.",)
PROGRAMS = ["forms"]
RUNS = {"quick": 3000, "thorough": 150000}

GEN_FNS = ("gen", "genloop", "genretry", "genstop", "genyf")


def selectable(fnir):
    forms = ir.bound_names(fnir)
    return [n for n, f in forms.items() if f != {"decl"}]


def gen_probe_ops(rng, qual, fnir, pid, quarantine):
    names = selectable(fnir)
    r = rng.random()
    if r < 0.55:
        focus = rng.choice(names)
        caps = [n for n in names if n != focus and rng.random() < 0.3][:2]
        sel = simple_sel(qual, focus=focus, caps=caps)
    elif r < 0.8:
        caps = rng.sample(names, min(len(names), rng.randint(1, 3)))
        sel = simple_sel(qual, caps=caps)
    else:
        sel = simple_sel(qual, focus="$x")
    spec = {"op": "mk", "id": pid, "sels": [sel], "nojudge": True,
            "raw": sel["focus"] is None or rng.random() < 0.2,
            "style": rng.randrange(2)}
    return spec


def gen(rng, tier, quarantine=()):
    prog, fns = fn_table("forms")
    qual, fnir = rng.choice(fns)
    if rng.random() < 0.12:
        # generators get a share of their own: their driving sequences are the larger space
        qual, fnir = rng.choice([(q, f) for q, f in fns if q in GEN_FNS])
    generated = None
    if "no-generated-programs" not in quarantine and rng.random() < 0.5:
        from .. import progen

        generated, is_gen = progen.gen_program(rng)
        fns = ir.all_functions(generated)
        qual, fnir = "rf", dict(fns)["rf"]
    inst = "k1"
    ops = []
    live = []
    route = rng.choice(["copy", "inplace", "probes", "probes", "probes", "probes"])
    if qual.startswith("K.") or fnir.get("kind") == "deco":
        if route == "copy":
            route = "probes"
    if route in ("copy", "inplace"):
        ops.append({"op": "tool", "fn": qual, "how": route})
    else:
        n = rng.randint(1, 3)
        live = []
        for i in range(n):
            pid = f"p{i}"
            ops.append(gen_probe_ops(rng, qual, fnir, pid, quarantine))
            ops.append({"op": "enter", "id": pid})
            live.append(pid)
            if rng.random() < 0.25 and live:
                # leave one again so the next variant comes from the cache path
                victim = live.pop()
                ops.append({"op": "exit", "id": victim})
    tl = 24 if tier == "quick" else 48
    ncalls = rng.randint(1, 3)
    short = qual.split(".")[-1]
    for c in range(ncalls):
        nf = rng.choice([0, 0, 1, 1, 2])
        if (short in GEN_FNS or (generated and is_gen)) and rng.random() < 0.7:
            g = f"g{c}"
            ops.append({"op": "gen_new", "gen": g, "fn": qual, "nargs": 1})
            nsteps = rng.randint(1, 6)
            # the probes may all go away while the generator exists -- even before it is first advanced
            leave_at = rng.randrange(nsteps) if (route == "probes" and rng.random() < 0.35) else None
            for j in range(nsteps):
                if j == leave_at:
                    while live:
                        ops.append({"op": "exit", "id": live.pop(rng.randrange(len(live)))})
                k = rng.choice(["gen_next"] * 4 + ["gen_send"] * 3 + ["gen_throw"] * 2 + ["gen_close", "gen_drop"])
                ops.append({"op": k, "gen": g, "tape": gen_tape(rng, 8),
                            "faults": gen_faults(rng, 8, rng.choice([0, 0, 1]))})
                if k == "gen_throw" and rng.random() < 0.4:
                    # StopIteration itself thrown in: a generator may catch it like anything else
                    ops[-1]["exc"] = "stop"
        else:
            op = call_shape(rng, qual, fnir, inst)
            op["tape"] = gen_tape(rng, rng.randint(0, tl))
            op["faults"] = gen_faults(rng, 30, nf)
            ops.append(op)
    sc = {"prog": "forms", "ops": ops}
    if generated:
        sc.update({"prog": "generated", "program": generated, "prog_name": f"gen{rng.randrange(1 << 40):x}"})
    return sc


def run(scenario):
    eng = Engine(scenario, judge=JUDGE)
    return eng.run()
