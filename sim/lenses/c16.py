"""C16 -- declared-but-unset variables are supplied from outside or fail loudly;
ptera's ABSENT marker is never handed to user code."""

from ..engine1 import Engine
from .common import gen_faults, gen_tape

PROP = "C16"
JUDGE = ("C16.",)
PROGRAMS = ["decl"]
RUNS = {"quick": 3000, "thorough": 150000}

# fn -> (declared-only vars, other selectable names)
FN = {
    "d1": (["x"], ["p", "y"]),
    "d2": (["x"], ["p", "y", "z"]),
    "d3": (["a", "b"], ["p", "q", "y"]),
    "d4": (["x"], ["p", "y"]),
    "d5": (["x", "z"], ["p", "i"]),
    "u1": ([], ["p", "y", "z"]),
    "u2": ([], ["p", "y"]),
    "u3": ([], ["p", "y", "z"]),
    "u4": ([], ["p", "y", "z"]),
}


def one_sel(fn, focus):
    return {"levels": [{"fn": fn, "caps": [], "sibs": []}], "focus": {"var": focus, "as": focus}}


def _blocks(stmts, out):
    """every non-empty statement list of a function body (IR), the body itself included"""
    if not stmts:
        return out
    out.append(stmts)
    for st in stmts:
        k = st[0]
        subs = []
        if k == "if":
            subs = st[1:3]
        elif k == "ifx":
            subs = st[2:4]
        elif k == "while":
            subs = st[1:3]
        elif k == "for":
            subs = st[2:4]
        elif k == "with":
            subs = [st[2]]
        elif k == "with2":
            subs = [st[3]]
        elif k == "withn":
            subs = [st[2]]
        elif k == "pick":
            subs = st[1]
        elif k == "try":
            subs = [st[1]] + [h[2] for h in st[2]] + [st[3], st[4]]
        for part in subs:
            if isinstance(part, list):
                _blocks(part, out)
    return out


def gen_declared(rng):
    """A generated actor (sim/progen.py) into which bare declarations of fresh names are dropped
    at random places -- inside loops, branches, handlers, with-blocks -- each followed, usually, by
    a read of the declared name."""
    from .. import ir, progen

    program, _ = progen.gen_program(rng, want_gen=False)
    fnir = [f for f in program["functions"] if f["name"] == "rf"][0]
    decl = ["dx"] if rng.random() < 0.6 else ["dx", "dy"]
    anns = {v: rng.choice(["int", '"@A"', '"@A & @B"']) for v in decl}
    for v in decl:
        for _ in range(rng.choice([1, 1, 2])):
            blocks = _blocks(fnir["body"], [])
            b = rng.choice(blocks)
            # never after a statement that leaves the block
            hi = len(b)
            while hi > 0 and b[hi - 1][0] in ("ret", "raise", "break", "cont"):
                hi -= 1
            at = rng.randint(0, hi)
            new = [["ann", v, anns[v], None]]
            r = rng.random()
            if r < 0.5:
                new.append(["use", [v]])
            elif r < 0.8:
                new.append(["bind", rng.choice(progen.NAMES), ["add", ["var", v], ["val"]]])
            b[at:at] = new
    others = [n for n, f in ir.bound_names(fnir).items()
              if f != {"decl"} and n not in fnir.get("free", ()) and n not in decl]
    return program, decl, others


def gen_through_generator(rng, quarantine=()):
    """The declaration is supplied along a call path that runs through a generator
    (dstream > d1 > x); other probes come and go while the generator is suspended, and the
    supplier may leave: each later call of d1 is supplied, or fails with the name error,
    according to who is active when it is made."""
    sel = {"levels": [{"fn": "dstream", "caps": [], "sibs": []}, {"fn": "d1", "caps": [], "sibs": []}],
           "focus": {"var": "x", "as": "x"}}
    kind = rng.choice(["tweak", "overridable"])
    ops = [{"op": "tool", "fn": "dstream", "how": "inplace"}, {"op": "tool", "fn": "d1", "how": "inplace"},
           {"op": "mk", "id": "o0", "kind": kind, "sels": [sel], "how": ["const", rng.choice([0, 5, 77])], "nojudge": True},
           {"op": "enter", "id": "o0"}]
    if kind == "overridable" and "no-absent-scan-of-own-declaration-events" in quarantine:
        ops[2]["absent_ok"] = ["x"]  # KF-C16-2
    supplier_live = True
    gens = []
    for c in range(rng.randint(1, 2)):
        gens.append(f"g{c}")
        ops.append({"op": "gen_new", "gen": f"g{c}", "fn": "dstream", "nargs": 1})
    by_id, n_by = None, 0
    for _ in range(rng.randint(3, 9)):
        r = rng.random()
        if r < 0.3:
            if by_id is None:
                by_id, n_by = f"by{n_by}", n_by + 1
                ops.append({"op": "mk", "id": by_id, "kind": "probe", "nojudge": True,
                            "sels": [one_sel(rng.choice(["d1", "dstream", "d2"]), "#enter")]})
                ops.append({"op": "enter", "id": by_id})
            else:
                ops.append({"op": "exit", "id": by_id})
                by_id = None
        elif r < 0.38 and supplier_live:
            ops.append({"op": "exit", "id": "o0"})
            supplier_live = False
        else:
            ops.append({"op": "gen_next", "gen": rng.choice(gens), "tape": gen_tape(rng, 6), "faults": {}})
    for g in gens:
        ops.append({"op": "gen_close", "gen": g, "tape": [], "faults": {}})
    return {"prog": "decl", "ops": ops, "c16": True, "no_ref": True}


def gen(rng, tier, quarantine=()):
    if "no-generator-path" not in quarantine and rng.random() < 0.06:
        return gen_through_generator(rng, quarantine)
    fns = [f for f in FN if f"no:{f}" not in quarantine]
    fn = rng.choice(fns)
    decl, others = FN[fn]
    generated = None
    if "no-generated-programs" not in quarantine and rng.random() < 0.35:
        generated, decl, others = gen_declared(rng)
        fn = "rf"
    ops = []
    n = 0
    # which of the declared variables an overlay / probe supplies
    supplied = [v for v in decl if rng.random() < 0.55]
    need_tool = False
    recs = []
    failing = None
    for v in supplied:
        kind = rng.choice(["tweak", "overridable"])
        need_tool |= kind == "tweak"
        rec = {"op": "mk", "id": f"o{n}", "kind": kind, "sels": [one_sel(fn, v)],
               "how": ["const", rng.choice([0, 5, 77])], "nojudge": True}
        if kind == "overridable":
            if "no-absent-scan-of-own-declaration-events" in quarantine:
                # KF-C16-2: the probe's own event for the declaration carries ABSENT as the tentative
                # value of v -- that key of that event is not scanned; everything else is judged
                rec["absent_ok"] = [v]
            if rng.random() < 0.5:
                # supplied only for some calls: decided by the first parameter (p differs from call
                # to call), the conditional form users write -- filter(...).override(value)
                rec["sels"] = [{"levels": [{"fn": fn, "caps": [{"var": "p", "as": "p"}], "sibs": []}],
                                "focus": {"var": v, "as": v}}]
                rec["how"] = ["ctx_mod3_const", "p", rng.choice([0, 5, 77])]
                rec["filtered"] = True
                if failing is None and rng.random() < 0.5 and "no-failing-subscriber" not in quarantine:
                    failing = rec["id"]
        recs.append(rec)
        n += 1
    # other probes decide how much of the function is instrumented: all / some / none
    mode = rng.choice(["all", "some", "some", "none"])
    if "always-instrument-all" in quarantine:
        mode = "all"
    undefined_global = fn in ("u1", "u2", "u3")  # (u4 only reads defined globals)
    if undefined_global and "no-full-instrumentation-with-undefined-global" in quarantine:
        # KF-C16-1: with every variable instrumented the undefined global is fetched
        # through interact at entry and fails there even if the path never uses it
        if mode == "all":
            mode = "some"
    if mode == "all":
        recs.append({"op": "mk", "id": f"q{n}", "kind": "probe", "nojudge": True,
                     "sels": [one_sel(fn, "$v")]})
    elif mode == "some":
        pool = others + decl
        for v in rng.sample(pool, rng.randint(1, min(2, len(pool)))):
            n += 1
            recs.append({"op": "mk", "id": f"q{n}", "kind": "probe", "nojudge": True,
                         "sels": [one_sel(fn, v)]})
    elif rng.random() < 0.4:
        # a generic capture restricted to a tag: only the variables annotated with it are
        # instrumented; everything else of the function is left as it is (globals included)
        sel = one_sel(fn, "$v")
        sel["focus"]["tag"] = rng.choice(["@A", "@A", "@B"])  # (refused if no variable carries it)
        recs.append({"op": "mk", "id": f"q{n}", "kind": "probe", "nojudge": True, "sels": [sel], "may_refuse": True})
    else:
        recs.append({"op": "mk", "id": f"q{n}", "kind": "probe", "nojudge": True,
                     "sels": [one_sel(fn, "#enter")]})
    if undefined_global and "no-full-instrumentation-with-undefined-global" in quarantine:
        recs = [r for r in recs if r.get("kind") != "tweak"]
        need_tool = False
    if decl and rng.random() < 0.4:
        # a total probe gathering the declared variable together with others:
        # its record is published when the call ends, however it ends
        n += 1
        caps = [rng.choice(decl)] + rng.sample(others, rng.randint(1, len(others)))
        recs.append({"op": "mk", "id": f"t{n}", "kind": "probe", "nojudge": True, "raw": True,
                     "sels": [{"levels": [{"fn": fn, "caps": [{"var": c, "as": c} for c in caps], "sibs": []}],
                               "focus": None, "mode": "total"}]})
    if need_tool or (rng.random() < 0.15 and not (
            undefined_global and "no-full-instrumentation-with-undefined-global" in quarantine)):
        ops.append({"op": "tool", "fn": fn, "how": "inplace"})
    rng.shuffle(recs)
    ops += recs
    for r in recs:
        ops.append({"op": "enter", "id": r["id"]})
        if r["id"] == failing:
            # a subscriber attached after the override fails on its k-th event: that call is cut
            # short, and nothing of it may supply the declaration in a later call
            ops.append({"op": "stage", "id": failing, "kind": "whole", "cap": None, "raises": rng.choice([1, 1, 2])})
    for c in range(rng.randint(1, 3) + (2 if fn == "u3" else 0) + (3 if failing else 0)):
        if fn == "u3" and rng.random() < 0.5:
            # the global is deleted / defined again *between* calls (cached variants were built earlier)
            ops.append({"op": "setglobal", "name": "G1", "delete": rng.random() < 0.6, "value": 8})
        if fn == "u3" and recs and rng.random() < 0.3:
            # ... and probes come and go, so that variants are re-used from the cache
            r0 = recs[-1]
            ops.append({"op": "exit", "id": r0["id"]})
            r1 = dict(r0, id=r0["id"] + "x")
            ops.append(r1)
            ops.append({"op": "enter", "id": r1["id"]})
            recs[-1] = r1
        ops.append({"op": "call", "fn": fn, "nargs": 2 if fn == "d3" else 1,
                    "tape": gen_tape(rng, rng.randint(0, 6)),
                    "faults": gen_faults(rng, 8, rng.choice([0, 0, 0, 1]))})
        if recs and rng.random() < 0.3:
            r = recs.pop()
            ops.append({"op": "exit", "id": r["id"]})
            if not recs:
                break
    sc = {"prog": "decl", "ops": ops, "c16": True, "no_ref": True, "exact_failures": True}
    if generated:
        sc.update({"prog": "generated", "program": generated, "prog_name": f"gen{rng.randrange(1 << 40):x}"})
    return sc


def run(scenario):
    return Engine(scenario, judge=JUDGE).run()
