"""C09 -- a suspended generator does not leak its call-path context to its caller."""

from ..engine1 import Engine
from .common import gen_tape

PROP = "C09"
JUDGE = ("C09.",)
PROGRAMS = ["genctx"]
RUNS = {"quick": 3000, "thorough": 150000}

SELS = [
    (["gen", "g"], "a"), (["gen2", "g"], "a"), (["D", "g"], "a"), (["g"], "a"),
    (["D", "gen", "g"], "a"), (["D", "gen"], "x"), (["gen"], "x"), (["gen2"], "i"), (["D"], "d"),
    (["D", "gen2", "g"], "a"), (["D"], "r"), (["gen4"], "x"), (["gen4", "g"], "a"), (["gen5", "g"], "a"), (["gen5"], "r"), (["gen6", "g"], "a"), (["gen6", "g"], "a"),
    (["gen7"], "w"), (["gen7", "gen2", "g"], "a"), (["gen7", "gen2"], "i"),
    (["pump", "g"], "a"), (["pump", "g"], "a"), (["pump"], "q"),
]
YIELD_FROM_SELS = [(["gen3", "g"], "a"), (["gen3", "gen2", "g"], "a"), (["gen3"], "z"), (["gen3", "gen2"], "i")]


def mk_sel(chain, focus):
    return {"levels": [{"fn": f, "caps": [], "sibs": []} for f in chain],
            "focus": {"var": focus, "as": focus}}


def gen_failing_total(rng):
    """A total probe on the generator function whose subscriber fails when a generator is wound up
    (exhausted while running, closed, dropped): the driver's context is put back all the same --
    its own calls afterwards are not taken for calls made inside the generator."""
    gfn = rng.choice(["gen", "gen2", "gen4"])
    chain, focus = rng.choice([([gfn, "g"], "a"), (["D", gfn, "g"], "a"), ([gfn, "g"], "a")])
    cap = {"gen": "x", "gen2": "y", "gen4": "x"}[gfn]
    ops = [{"op": "mk", "id": "p0", "kind": "probe", "sels": [mk_sel(chain, focus)], "inv": "C09.no_foreign_events"},
           {"op": "mk", "id": "t0", "kind": "probe", "raw": True, "nojudge": True,
            "sels": [{"levels": [{"fn": gfn, "caps": [{"var": cap, "as": cap}], "sibs": []}], "focus": None, "mode": "total"}]},
           {"op": "enter", "id": "p0"}, {"op": "enter", "id": "t0"},
           {"op": "stage", "id": "t0", "kind": "whole", "cap": None, "raises": rng.choice([1, 1, 2])}]
    tape = lambda: gen_tape(rng, 6, hi=12, odd=0.45)
    for k in range(rng.randint(1, 3)):
        g = f"g{k}"
        ops.append({"op": "gen_new", "gen": g, "fn": gfn, "nargs": 1})
        for _ in range(rng.randint(1, 5)):
            ops.append({"op": "gen_next", "gen": g, "tape": tape(), "faults": {}})
            if rng.random() < 0.3:
                ops.append({"op": "call", "fn": "g", "nargs": 1, "tape": [], "faults": {}})
        ops.append({"op": rng.choice(["gen_close", "gen_next", "gen_next"]), "gen": g, "tape": [0, 0, 0], "faults": {}})
        ops.append({"op": "call", "fn": "g", "nargs": 1, "tape": [], "faults": {}})
    ops += [{"op": "exit", "id": "t0"}, {"op": "call", "fn": "g", "nargs": 1, "tape": [], "faults": {}},
            {"op": "exit", "id": "p0"}, {"op": "call", "fn": "g", "nargs": 1, "tape": [], "faults": {}}]
    return {"prog": "genctx", "ops": ops, "handlers_inv": "C09.driver_handlers", "exact_failures": True}


def gen(rng, tier, quarantine=()):
    if "no-failing-subscriber" not in quarantine and rng.random() < 0.08:
        return gen_failing_total(rng)
    if rng.random() < 0.1:
        return gen_pumped(rng, tier)
    ops = []
    nprobes = rng.choice([1, 2, 2, 3])
    kinds = {}
    yf = "no-yield-from" not in quarantine and rng.random() < 0.3
    for i in range(nprobes):
        chain, focus = rng.choice(SELS + (YIELD_FROM_SELS * 2 if yf else []))
        pid = f"p{i}"
        kinds[pid] = rng.choice(["probe", "probe", "overlay"])
        ops.append({"op": "mk", "id": pid, "kind": kinds[pid], "sels": [mk_sel(chain, focus)],
                    "inv": "C09.no_foreign_events"})
    if "overlay" in kinds.values():
        for f in ("g", "gen", "gen2", "gen3", "gen4", "gen5", "gen6", "gen7", "D", "pump"):
            ops.insert(0, {"op": "tool", "fn": f, "how": "inplace"})
    pending = list(kinds)
    live = []
    pumped = False
    gens = []
    ng = 0
    # most runs start with an overlay active and a generator under way
    if rng.random() < 0.7:
        pid = pending.pop(0)
        ops.append({"op": "enter", "id": pid})
        live.append(pid)
    if rng.random() < 0.7:
        ops.append({"op": "gen_new", "gen": "g0", "fn": rng.choice(["gen", "gen2", "gen4", "gen5", "gen6", "gen7", "gen7"]), "nargs": 1,
                    "cycle": rng.random() < 0.25})
        if ops[-1]["fn"] in ("gen", "gen2") and not ops[-1]["cycle"] and rng.random() < 0.6:
            # ... which another function advances from inside its own calls, now and then
            ops[-1]["as_global"] = "GEN"
            pumped = True
        gens.append("g0")
        ng = 1
        ops.append({"op": "gen_next", "gen": "g0", "tape": gen_tape(rng, 6, hi=12, odd=0.6), "faults": {}})
    nsteps = rng.randint(5, 14) if tier == "quick" else rng.randint(8, 30)
    for _ in range(nsteps):
        r = rng.random()
        if pumped and "g0" in gens and rng.random() < 0.3:
            ops.append({"op": "call", "fn": "pump", "nargs": 1, "tape": gen_tape(rng, 8, hi=12, odd=0.6), "faults": {}})
            continue
        if r < 0.18 and pending:
            pid = pending.pop(0)
            ops.append({"op": "enter", "id": pid})
            live.append(pid)
        elif r < 0.28 and live:
            ops.append({"op": "exit", "id": live.pop()})
        elif r < 0.40 and len(gens) < 2:
            gname = f"g{ng}"
            ng += 1
            ops.append({"op": "gen_new", "gen": gname, "fn": rng.choice(["gen", "gen2", "gen4", "gen5", "gen6", "gen6", "gen7", "gen7"] + (["gen3"] * 3 if yf else [])),
                        "nargs": 1, "cycle": rng.random() < 0.25})
            gens.append(gname)
        elif r < 0.62 and gens:
            # mostly advanced; sometimes thrown into (gen4 catches that and yields again)
            ops.append({"op": "gen_next" if rng.random() < 0.75 else "gen_throw", "gen": rng.choice(gens),
                        "tape": gen_tape(rng, 6, hi=12, odd=0.5), "faults": {}})
        elif r < 0.70 and gens:
            gname = gens.pop(rng.randrange(len(gens)))
            ops.append({"op": rng.choice(["gen_close", "gen_drop"]), "gen": gname, "tape": [], "faults": {}})
        elif r < 0.74:
            ops.append({"op": "gc", "tape": [], "faults": {}})
        elif r < 0.9:
            ops.append({"op": "call", "fn": "g", "nargs": 1, "tape": [], "faults": {}})
        else:
            ops.append({"op": "call", "fn": "D", "nargs": 1,
                        "tape": gen_tape(rng, rng.randint(4, 30), hi=12, odd=0.5), "faults": {}})
    # wind down in an arbitrary (non-LIFO) order: overlays end, generators finish later
    tail = [{"op": "exit", "id": pid} for pid in reversed(live)]
    tail += [{"op": rng.choice(["gen_close", "gen_drop", "gen_next"]), "gen": gname, "tape": [1, 0, 0], "faults": {}}
             for gname in gens]
    if "lifo-winddown" not in quarantine:
        rng.shuffle(tail)
        # with-blocks among themselves stay LIFO
        exits = [t for t in tail if t["op"] == "exit"]
        it = iter([{"op": "exit", "id": pid} for pid in reversed(live)])
        tail = [next(it) if t["op"] == "exit" else t for t in tail]
    ops += tail
    ops.append({"op": "gc", "tape": [], "faults": {}})
    ops.append({"op": "call", "fn": "g", "nargs": 1, "tape": [], "faults": {}})
    return {"prog": "genctx", "ops": ops, "handlers_inv": "C09.driver_handlers",
            "relax_inflight": True}


def gen_pumped(rng, tier):
    """A generator that somebody created at the top level is advanced now from the top level, now
    from inside the calls of another function (pump): what its body calls is matched under the
    pump activation that is running then -- with that activation's values -- and under none when
    there is none."""
    def sel(chain, focus, caps=()):
        levels = [{"fn": f, "caps": [], "sibs": []} for f in chain]
        if caps:
            levels[0]["caps"] = [{"var": c, "as": c} for c in caps]
        return {"levels": levels, "focus": {"var": focus, "as": focus}}

    pool = [sel(["pump", "g"], "a", ["q"]), sel(["pump", "g"], "a"), sel(["g"], "a"), sel(["pump"], "q"),
            sel(["pump", "g"], "a", ["q"])]
    ops = []
    kinds = {}
    for i in range(rng.choice([1, 2, 2])):
        pid = f"p{i}"
        kinds[pid] = rng.choice(["probe", "probe", "overlay"])
        ops.append({"op": "mk", "id": pid, "kind": kinds[pid], "sels": [rng.choice(pool)], "inv": "C09.no_foreign_events"})
    if "overlay" in kinds.values():
        ops[0:0] = [{"op": "tool", "fn": f, "how": "inplace"} for f in ("g", "gen", "gen2", "pump")]
    pending, live = list(kinds), []
    ops.append({"op": "enter", "id": pending.pop(0)})
    live.append(ops[-1]["id"])
    gfn = rng.choice(["gen", "gen2"])
    tape = lambda: gen_tape(rng, 8, hi=12, odd=0.6)
    ops.append({"op": "gen_new", "gen": "g0", "fn": gfn, "nargs": 1, "as_global": "GEN"})
    through = rng.random() < 0.4
    if through:
        # the chain runs through the generator itself: the probe is active before the generator
        # exists, and the generator's first step is made by pump (it is entered under a pump
        # activation; later ones resume it).  The values of pump in the event are those of the
        # call of pump that is running then.
        for op in ops:
            if op["op"] == "mk" and op["id"] == live[0]:
                op["sels"] = [sel(["pump", gfn, "g"], "a", ["q"] if rng.random() < 0.7 else [])]
        ops.append({"op": "call", "fn": "pump", "nargs": 1, "tape": tape(), "faults": {}})
    elif rng.random() < 0.5:
        ops.append({"op": "gen_next", "gen": "g0", "tape": tape(), "faults": {}})
    for _ in range(rng.randint(4, 10) if tier == "quick" else rng.randint(6, 20)):
        r = rng.random()
        if r < 0.45:
            ops.append({"op": "call", "fn": "pump", "nargs": 1, "tape": tape(), "faults": {}})
        elif r < 0.65:
            ops.append({"op": "gen_next", "gen": "g0", "tape": tape(), "faults": {}})
        elif r < 0.75:
            ops.append({"op": "call", "fn": "g", "nargs": 1, "tape": [], "faults": {}})
        elif r < 0.87 and pending:
            ops.append({"op": "enter", "id": pending.pop(0)})
            live.append(ops[-1]["id"])
        elif live and r >= 0.87:
            ops.append({"op": "exit", "id": live.pop()})
    ops.append({"op": "gen_next", "gen": "g0", "tape": tape(), "faults": {}})
    ops.append({"op": "call", "fn": "pump", "nargs": 1, "tape": tape(), "faults": {}})
    for pid in reversed(live):
        ops.append({"op": "exit", "id": pid})
    ops.append({"op": "gen_close", "gen": "g0", "tape": [], "faults": {}})
    ops.append({"op": "call", "fn": "g", "nargs": 1, "tape": [], "faults": {}})
    return {"prog": "genctx", "ops": ops, "handlers_inv": "C09.driver_handlers", "relax_inflight": True}


def run(scenario):
    return Engine(scenario, judge=JUDGE).run()
