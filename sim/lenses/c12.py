"""C12 -- value conditions in selectors filter events exactly by the stated predicate."""

from ..engine1 import Engine
from .common import gen_tape

PROP = "C12"
JUDGE = ("C12.",)
PROGRAMS = ["loops"]
RUNS = {"quick": 3000, "thorough": 150000}

BOX = [-3, 6]
VARS = {"L": ["p", "n", "i", "j", "x"], "outer": ["a", "b", "r"], "inner": ["c", "d", "k", "e"]}


def gen_cond(rng):
    lo, hi = BOX
    v = lambda: rng.randint(lo - 1, hi + 1)
    r = rng.random()
    if r < 0.25:
        return ["eq", v()]
    if r < 0.5:
        n = rng.choice([1, 2, 3, 4])
        args = [["", n]]
        rr = rng.random()
        if rr < 0.3:
            args.append(["start", v()])
        elif rr < 0.55:
            args += [["start", v()], ["end", v()]]
        elif rr < 0.7:
            args += [["", v()], ["", v()]]
        return ["every"] + args
    if r < 0.65:
        return ["between", ["", v()], ["", v()]]
    kind = rng.choice(["lt", "gt", "lte", "gte"])
    return [kind, ["", v()]]


def gen_sel(rng):
    shape = rng.choice(["L", "L", "outer>inner", "inner", "outer"])
    levels = []
    chain = shape.split(">")
    focus = None
    for j, f in enumerate(chain):
        last = j == len(chain) - 1
        vs = list(VARS[f])
        fv = None
        if last:
            fv = rng.choice(vs)
            vs.remove(fv)
        params = {"L": "p", "outer": "a", "inner": "c"}[f]
        if fv == params:
            pass
        caps = []
        for v in rng.sample(vs, rng.choice([0, 1, 1, 2])):
            if fv == params and v == params:
                continue
            cap = {"var": v, "as": f"{v}{j}"}
            if rng.random() < 0.75:
                cap["cond"] = gen_cond(rng)
            caps.append(cap)
        levels.append({"fn": f, "caps": caps, "sibs": []})
        if last:
            focus = {"var": fv, "as": f"{fv}f"}
            if rng.random() < 0.3:
                focus["cond"] = gen_cond(rng)
    return {"levels": levels, "focus": focus}


def gen_coroutine(rng, tier):
    """prod(k~cond) > cons > item: cons is a coroutine that prod primes *before* k is first bound and
    then feeds in a loop over k -- the condition on k filters all the same (events and overrides)."""
    cap = {"var": "k", "as": "k0", "cond": gen_cond(rng)}
    sel = {"levels": [{"fn": "prod", "caps": [cap], "sibs": []}, {"fn": "cons", "caps": [], "sibs": []}],
           "focus": {"var": "item", "as": "itemf"}}
    ops = []
    if rng.random() < 0.4:
        ops.append({"op": "mk", "id": "o0", "kind": "overridable", "sels": [sel],
                    "how": ["const", rng.choice([0, 2, 5])], "nojudge": True})
    else:
        ops.append({"op": "mk", "id": "p0", "sels": [sel], "inv": "C12.filter", "style": rng.randrange(2)})
    ops.append({"op": "enter", "id": ops[-1]["id"]})
    if rng.random() < 0.5:
        import copy

        sel2 = copy.deepcopy(sel)
        sel2["levels"][0]["caps"][0]["cond"] = gen_cond(rng)
        ops += [{"op": "mk", "id": "p1", "sels": [sel2], "inv": "C12.filter", "style": 0}, {"op": "enter", "id": "p1"}]
    tl = 30 if tier == "quick" else 60
    for _ in range(rng.randint(1, 3)):
        ops.append({"op": "call", "fn": "prod", "nargs": 1,
                    "tape": gen_tape(rng, rng.randint(6, tl), hi=40, odd=0.6), "faults": {}, "box": BOX})
    return {"prog": "loops", "ops": ops, "subst_inv": "C12.override_filter"}


def gen(rng, tier, quarantine=()):
    if "no-coroutines" not in quarantine and rng.random() < 0.1:
        return gen_coroutine(rng, tier)
    ops = []
    nprobes = rng.choice([1, 2, 2, 3])
    prev = None
    for i in range(nprobes):
        sel = gen_sel(rng)
        if prev is not None and rng.random() < 0.6:
            # a variation of the previous selector: same elements (interned by ptera), one
            # condition changed or dropped -- conditions must not travel between selectors
            import copy

            sel = copy.deepcopy(prev)
            caps = [c for lv in sel["levels"] for c in lv["caps"]]
            conditioned = [c for c in caps if c.get("cond")]
            if conditioned:
                victim = rng.choice(conditioned)
                if rng.random() < 0.5:
                    victim.pop("cond")
                else:
                    victim["cond"] = gen_cond(rng)
            elif caps:
                rng.choice(caps)["cond"] = gen_cond(rng)
        prev = sel
        if rng.random() < 0.3:
            ops.append({"op": "mk", "id": f"o{i}", "kind": "overridable", "sels": [sel],
                        "how": ["const", rng.choice([0, 2, 5])], "nojudge": True})
        else:
            ops.append({"op": "mk", "id": f"p{i}", "sels": [sel], "inv": "C12.filter",
                        "style": rng.randrange(2)})
        ops.append({"op": "enter", "id": ops[-1]["id"]})
    tl = 40 if tier == "quick" else 90
    live = [op["id"] for op in ops if op["op"] == "enter"]
    for c in range(rng.randint(1, 3)):
        ops.append({"op": "call", "fn": rng.choice(["L", "L", "outer", "inner"]), "nargs": 1,
                    "tape": gen_tape(rng, rng.randint(6, tl), hi=40, odd=0.35), "faults": {},
                    "box": BOX})
        if len(live) > 1 and rng.random() < 0.35:
            # one of the probes goes away, in any order: the conditions of those that stay keep
            # filtering (the constrained variables stay instrumented for them)
            ops.append({"op": "exit", "id": live.pop(rng.randrange(len(live)))})
            ops.append({"op": "call", "fn": rng.choice(["L", "L", "outer", "inner"]), "nargs": 1,
                        "tape": gen_tape(rng, rng.randint(6, tl), hi=40, odd=0.35), "faults": {},
                        "box": BOX})
    return {"prog": "loops", "ops": ops, "subst_inv": "C12.override_filter"}


def run(scenario):
    res = Engine(scenario, judge=JUDGE).run()
    # the stock predicates this scenario used, against the arithmetic reference,
    # over the whole box (and a margin): a small exhaustive side check
    import ptera.tools as tools
    from .. import msel

    seen = set()
    for op in scenario["ops"]:
        if op.get("op") != "mk":
            continue
        for sel in op["sels"]:
            for cap in msel.all_caps(sel):
                c = cap.get("cond")
                if not c or c[0] == "eq" or repr(c) in seen:
                    continue
                seen.add(repr(c))
                pos = [x for k, x in c[1:] if not k]
                kw = {k: x for k, x in c[1:] if k}
                pred = getattr(tools, c[0])(*pos, **kw)
                for v in range(BOX[0] - 6, BOX[1] + 7):
                    if bool(pred(v)) != msel.pred_holds(c, v):
                        res["viol"].append(["C12.predicates", -1, {"cond": c, "value": v, "ptera": bool(pred(v))}])
                        break
    return res
