"""C07 -- total probes: one complete record per ended outermost call."""

from ..engine1 import Engine
from . import c03

PROP = "C07"
JUDGE = ("C07.",)
PROGRAMS = ["calltree"]
RUNS = {"quick": 3000, "thorough": 150000}


def gen(rng, tier, quarantine=()):
    return c03.gen(rng, tier, quarantine, total=True, inv="C07.records")


def run(scenario):
    return Engine(scenario, judge=JUDGE).run()
