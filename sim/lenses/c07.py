"""C07 -- total probes: one complete record per ended outermost call."""

from .. import ir
from ..engine1 import Engine
from . import c03
from .common import fn_table, gen_faults, gen_tape

PROP = "C07"
JUDGE = ("C07.",)
PROGRAMS = ["calltree", "forms", "genctx"]
RUNS = {"quick": 3000, "thorough": 150000}


def gen_generator_case(rng, tier):
    """The outermost function is a generator: its call 'ends' when it is
    exhausted, closed, thrown into, or finalised by the collector -- the record
    is due at that moment."""
    prog, fns = fn_table("forms")
    table = dict(fns)
    qual = rng.choice(["gen", "genloop"])
    names = [n for n in ir.bound_names(table[qual])]
    caps = rng.sample(names, rng.randint(1, min(3, len(names))))
    sel = {"levels": [{"fn": qual, "caps": [{"var": c, "as": c} for c in caps], "sibs": []}],
           "focus": None, "mode": "total"}
    ops = [{"op": "mk", "id": "p0", "sels": [sel], "inv": "C07.records", "raw": True},
           {"op": "enter", "id": "p0"}]
    for c in range(rng.randint(1, 3)):
        g = f"g{c}"
        cyc = rng.random() < 0.3
        ops.append({"op": "gen_new", "gen": g, "fn": qual, "nargs": 1, "cycle": cyc})
        for _ in range(rng.randint(1, 5)):
            k = rng.choice(["gen_next"] * 4 + ["gen_send"] * 2 + ["gen_throw"])
            ops.append({"op": k, "gen": g, "tape": gen_tape(rng, 8, odd=0.5),
                        "faults": gen_faults(rng, 8, rng.choice([0, 0, 0, 1]))})
        ops.append({"op": rng.choice(["gen_close", "gen_drop", "gen_throw"]), "gen": g, "tape": [], "faults": {}})
        if cyc:
            ops.append({"op": "gc", "tape": [], "faults": {}})
    ops.append({"op": "exit", "id": "p0"})
    return {"prog": "forms", "ops": ops}


def gen_generator_nested(rng, tier):
    """The outermost function is a generator that calls a captured function each time it runs
    again, while another probe comes and goes between its steps (the generator then takes stock
    of who is listening): the record of its call still holds every value from the calls made
    under it, and from nothing else (the driver calls g too)."""
    qual = rng.choice(["gen", "gen2", "gen5", "gen6"])
    own = {"gen": "x", "gen2": "y", "gen5": "x", "gen6": "x"}[qual]
    outer_caps = [{"var": own, "as": own}] if rng.random() < 0.6 else []
    sel = {"levels": [{"fn": qual, "caps": outer_caps, "sibs": []},
                      {"fn": "g", "caps": [{"var": "a", "as": "a"}], "sibs": []}],
           "focus": None, "mode": "total"}
    by = {"levels": [{"fn": rng.choice(["g", qual])}], "focus": {"var": "#value", "as": "v"}}
    by["levels"][0].update({"caps": [], "sibs": []})
    ops = [{"op": "mk", "id": "p0", "sels": [sel], "inv": "C07.records", "raw": True},
           {"op": "tool", "fn": qual, "how": "inplace"}, {"op": "tool", "fn": "g", "how": "inplace"},
           {"op": "enter", "id": "p0"}]
    by_id, n_by = None, 0
    gens = []
    for c in range(rng.randint(1, 2)):
        gens.append(f"g{c}")
        ops.append({"op": "gen_new", "gen": f"g{c}", "fn": qual, "nargs": 1})
    pumped = qual in ("gen", "gen2") and rng.random() < 0.5
    if pumped:
        # ... and it is advanced from inside the calls of another function too (pump calls g itself
        # as well: those values are not the generator's)
        ops[-1]["as_global"] = "GEN"
        ops.insert(1, {"op": "tool", "fn": "pump", "how": "inplace"})
    for _ in range(rng.randint(3, 9)):
        r = rng.random()
        if pumped and rng.random() < 0.3:
            ops.append({"op": "call", "fn": "pump", "nargs": 1, "tape": gen_tape(rng, 8, odd=0.5), "faults": {}})
            continue
        if r < 0.3:
            if by_id is None:
                # (a probe is spent once it has been deactivated: every bystander is a new one)
                by_id, n_by = f"by{n_by}", n_by + 1
                ops.append({"op": "mk", "id": by_id, "kind": rng.choice(["probe", "probe", "overlay"]),
                            "sels": [by], "nojudge": True})
                ops.append({"op": "enter", "id": by_id})
            else:
                ops.append({"op": "exit", "id": by_id})
                by_id = None
        elif r < 0.45:
            ops.append({"op": "call", "fn": "g", "nargs": 1, "tape": gen_tape(rng, 4), "faults": {}})
        else:
            k = rng.choice(["gen_next"] * 4 + ["gen_send", "gen_throw"])
            ops.append({"op": k, "gen": rng.choice(gens), "tape": gen_tape(rng, 8, odd=0.5), "faults": {}})
    for g in gens:
        ops.append({"op": rng.choice(["gen_close", "gen_close", "gen_drop"]), "gen": g, "tape": [], "faults": {}})
    ops.append({"op": "gc", "tape": [], "faults": {}})
    return {"prog": "genctx", "ops": ops}


def with_refused_activation(rng, sc):
    """Another probe naming one of the functions is refused (it asks for a variable the function
    does not have) while the total probes are live: the refusal must not disturb them."""
    fns = sorted({lv["fn"] for op in sc["ops"] if op["op"] == "mk" for sel in op["sels"] for lv in sel["levels"]})
    enters = [i for i, op in enumerate(sc["ops"]) if op["op"] == "enter"]
    if not fns or not enters:
        return sc
    bad = {"levels": [{"fn": rng.choice(fns), "caps": [], "sibs": []}], "focus": {"var": "nosuchvar", "as": "nosuchvar"}}
    if rng.random() < 0.4:
        # refused part-way: the chain runs through something that cannot be instrumented
        bad = {"levels": [bad["levels"][0], {"fn": "NOTFN", "caps": [], "sibs": []}], "focus": {"var": "#value", "as": "v"}}
    at = enters[-1] + 1
    sc["ops"][at:at] = [{"op": "mk", "id": "bad", "kind": "probe", "sels": [bad], "nojudge": True, "expect_refusal": True},
                        {"op": "enter", "id": "bad"}]
    return sc


def gen_failing_nested(rng, tier):
    """Two total probes: E(x) > Y > Z(z), and Y(v) whose subscriber fails when a call of Y is
    wound up.  E survives that and carries on calling (Z directly, too): the record of E's call
    still holds the values of z from calls of Z made under Y, and from nothing else."""
    y, z = rng.sample(c03.FNS, 2)
    t1 = {"levels": [{"fn": "E", "caps": [{"var": "x", "as": "x0"}], "sibs": []},
                     {"fn": y, "caps": [], "sibs": []},
                     {"fn": z, "caps": [{"var": rng.choice(c03.local_vars(z)), "as": "z2"}], "sibs": []}],
          "focus": None, "mode": "total"}
    t2 = {"levels": [{"fn": y, "caps": [{"var": rng.choice(c03.local_vars(y)), "as": "v0"}], "sibs": []}],
          "focus": None, "mode": "total"}
    ops = [{"op": "mk", "id": "p0", "sels": [t1], "inv": "C07.records", "raw": True},
           {"op": "mk", "id": "p1", "sels": [t2], "inv": "C07.records", "raw": True}]
    first, second = rng.sample(["p0", "p1"], 2)
    ops += [{"op": "enter", "id": first}, {"op": "enter", "id": second},
            {"op": "stage", "id": "p1", "kind": "whole", "cap": None, "raises": rng.choice([1, 1, 2, 3])}]
    tl = 50 if tier == "quick" else 100
    for _ in range(rng.randint(2, 4)):
        ops.append({"op": "call", "fn": "E", "nargs": 1,
                    "tape": c03.tree_tape(rng, rng.randint(10, tl), {y, z}, 0.9, 0.1), "faults": {}})
    return {"prog": "calltree", "ops": ops, "exact_failures": True}


def gen(rng, tier, quarantine=()):
    if "no-failing-subscriber" not in quarantine and rng.random() < 0.12:
        return gen_failing_nested(rng, tier)
    sc = _gen(rng, tier, quarantine)
    if "no-refused-activation" not in quarantine and sc["prog"] == "calltree" and rng.random() < 0.2:
        sc = with_refused_activation(rng, sc)
    return sc


def _gen(rng, tier, quarantine=()):
    r = rng.random()
    if "no-generator-outermost" not in quarantine and r < 0.08:
        return gen_generator_nested(rng, tier)
    if "no-generator-outermost" not in quarantine and r < 0.2:
        return gen_generator_case(rng, tier)
    if "no-forced-total" not in quarantine and r < 0.45:
        # a focused selector forced to total mode: one record per focus binding
        sc = c03.gen(rng, tier, quarantine, total=False, inv="C07.records")
        for op in sc["ops"]:
            if op["op"] == "mk":
                op["ptype"] = "total"
                op["raw"] = True
                for sel in op["sels"]:
                    sel["mode"] = "total"
        return sc
    return c03.gen(rng, tier, quarantine, total=True, inv="C07.records")


def run(scenario):
    return Engine(scenario, judge=JUDGE).run()
