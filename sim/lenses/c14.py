"""C14 -- absolute references keep resolving to the same function across probing.

The codefind registry answers "which functions run this code" either from
gc.get_referrers (fast machine) or from a cache that ptera must keep in step
with its code swaps (slow machine: one scan cost more than MAX_TIME).  Which of
the two it trusts is decided by a wall clock; the simulator owns that clock
(seam S4) and the collector (S3), and makes both scheduled operations."""

from ..engine1 import Engine
from .common import gen_faults

PROP = "C14"
JUDGE = ("C14.",)
PROGRAMS = ["reg"]
RUNS = {"quick": 1500, "thorough": 60000}

# qualname -> (how to call it, local variable, by-name path)
FN = {
    "top": ("top", "x", "top"),
    "meth": ("meth", "x", "meth"),
    "other": ("other", "y", "other"),
    "deco": ("deco", "x", "deco"),
    "inner": ("inner", "x", "inner"),
    "mk": ("mk", "c0", "mk"),  # the factory enclosing `inner` (its nested def is recompiled when probed)
    "K.meth": ("k1.meth", "x", "K.meth"),
    "Sub.other": ("s1.other", "y", "Sub.other"),
    "E.meth": ("e1.meth", "x", "E.meth"),
    "W.dm": ("w1.dm", "x", "W.dm"),
    "W.In.meth": ("i1.meth", "x", "W.In.meth"),
}


def gen(rng, tier, quarantine=()):
    names = [q for q in FN if f"no:{q}" not in quarantine]
    universe = rng.sample(names, rng.choice([1, 2, 2, 3]))
    if "no-namesake" not in quarantine and rng.random() < 0.3:
        universe = ["meth", "K.meth"] + universe[:1]
    nested_pair = False
    if ("inner" in universe or "mk" in universe) and rng.random() < 0.7:
        # a nested function together with the function enclosing it: probing the outer
        # one recompiles the inner one's code as a constant of each variant
        universe = ["inner", "mk"] + [u for u in universe if u not in ("inner", "mk")][:1]
        nested_pair = True
    ops = []
    if rng.random() < 0.3:
        ops.append({"op": "clock", "mode": "slow"})
    if "no-inplace" not in quarantine and rng.random() < 0.3:
        # tooled.inplace swaps the code of the function too (and keeps a helper copy)
        q = rng.choice([u for u in universe if "." not in u and u != "mk"] or ["top"])
        how = rng.choice(["inplace", "inplace", "decorate"])
        if how == "decorate" and rng.random() < 0.6:
            # ... '@tooled' above a method (a plain def in a class body; the engine falls back to
            # in-place tooling for anything else)
            q = rng.choice([u for u in universe if "." in u] or [q])
        if q not in universe:
            universe.append(q)
        # ... and '@tooled' binds the name to a tooled copy
        ops.append({"op": "tool", "fn": q, "how": how})
    nprobes = rng.randint(3, 5) if nested_pair else rng.randint(1, 4)
    for i in range(nprobes):
        q = rng.choice(universe[:2] * 2 + universe[2:]) if nested_pair else rng.choice(universe)
        call, local, path = FN[q]
        lv = {"fn": q, "caps": [], "sibs": []}
        if rng.random() < 0.5:
            lv["ref"] = True
        else:
            lv["recv_path"] = path
        focus = rng.choice([local, "p", "#value"])
        ops.append({"op": "mk", "id": f"p{i}", "inv": "C14.ref_stream",
                    "sels": [{"levels": [lv], "focus": {"var": focus, "as": "foc" if focus[0] == "#" else focus}}]})
    pending = [f"p{i}" for i in range(nprobes)]
    live = []
    refused = None
    if "no-uninstrumentable" not in quarantine and rng.random() < 0.25:
        # an activation naming a function ptera cannot instrument (by name or by reference) is
        # refused; its reference, and everybody else's, keeps resolving afterwards
        lv = {"fn": "coro", "caps": [], "sibs": []}
        if rng.random() < 0.5:
            lv["ref"] = True
        else:
            lv["recv_path"] = "coro"
        sels = [{"levels": [lv], "focus": {"var": "x", "as": "x"}}]
        if rng.random() < 0.4:
            q0 = rng.choice(universe)
            sels.insert(0, {"levels": [{"fn": q0, "caps": [], "sibs": [], "recv_path": FN[q0][2]}],
                            "focus": {"var": FN[q0][1], "as": FN[q0][1]}})
        ops.append({"op": "mk", "id": "bad", "sels": sels, "nojudge": True, "expect_refusal": True})
        refused = "bad"
    nsteps = rng.randint(4, 12) if tier == "quick" else rng.randint(6, 24)
    for _ in range(nsteps):
        r = rng.random()
        if refused and rng.random() < 0.3:
            ops.append({"op": "enter", "id": refused})
            refused = None
        if r < 0.3 and pending:
            pid = pending.pop(0)
            ops.append({"op": "enter", "id": pid})
            live.append(pid)
        elif r < 0.45 and live:
            ops.append({"op": "exit", "id": live.pop(rng.randrange(len(live)) if rng.random() < 0.3 else -1)})
        elif r < 0.55:
            ops.append({"op": "clock", "mode": rng.choice(["fast", "slow"])})
        elif r < 0.6:
            ops.append({"op": "gc", "tape": [], "faults": {}})
        elif r < 0.66 and "no-inplace" not in quarantine:
            # tooled in place in the middle of the history, after probes have come and gone (the engine
            # skips it while a probe is active on the function)
            cands = [u for u in universe if "." not in u and u not in ("mk", "coro")]
            if cands:
                ops.append({"op": "tool", "fn": rng.choice(cands), "how": "inplace"})
        else:
            q = rng.choice(universe)
            ops.append({"op": "call", "fn": FN[q][0], "nargs": 1, "tape": [],
                        "faults": gen_faults(rng, 3, rng.choice([0, 0, 0, 1]))})
    for pid in reversed(live):
        ops.append({"op": "exit", "id": pid})
    q = rng.choice(universe)
    ops.append({"op": "call", "fn": FN[q][0], "nargs": 1, "tape": [], "faults": {}})
    return {"prog": "reg", "ops": ops, "check_refs": True, "activation_inv": "C14.resolves"}


def run(scenario):
    return Engine(scenario, judge=JUDGE).run()
