"""C06 -- entry/exit, loop, yield, return and error meta-events bracket every path."""

import json

from ..engine1 import Engine
from .common import call_shape, fn_table, gen_faults, gen_tape

PROP = "C06"
JUDGE = ("C06.",)
PROGRAMS = ["forms"]
RUNS = {"quick": 3000, "thorough": 150000}

FNS = ["plain", "forloop", "fortuple", "nestloop", "whileloop", "tryexc", "bareexc",
       "forstar", "withcm", "withret", "retnone", "gen", "genloop", "genretry", "genstop", "callsother", "tup_tuple", "K.meth", "deco", "clo"]
GEN_FNS = ("gen", "genloop", "genretry", "genstop")


def loop_vars(fnir):
    out = []

    def walk(stmts):
        for s in stmts:
            if not isinstance(s, list) or not s:
                continue
            if s[0] == "for":
                t = s[1]
                out.extend([t] if isinstance(t, str) else [u for u in t[1] if isinstance(u, str)])
                walk(s[2])
                walk(s[3] or [])
            elif s[0] in ("if",):
                walk(s[1]); walk(s[2] or [])
            elif s[0] == "ifx":
                walk(s[2]); walk(s[3] or [])
            elif s[0] == "while":
                walk(s[1])
                if len(s) > 2:
                    walk(s[2] or [])
            elif s[0] == "try":
                walk(s[1])
                for h in s[2]:
                    walk(h[2])
                walk(s[3] or []); walk(s[4] or [])
            elif s[0] == "with":
                walk(s[2])
            elif s[0] == "with2":
                walk(s[3])
            elif s[0] == "withn":
                walk(s[2])
            elif s[0] == "pick":
                for arm in s[1]:
                    walk(arm)

    walk(fnir["body"])
    return out


def meta_sel(qual, var):
    return {"levels": [{"fn": qual, "caps": [], "sibs": []}], "focus": {"var": var, "as": var}}


def gen(rng, tier, quarantine=()):
    prog, fns = fn_table("forms")
    table = dict(fns)
    qual = rng.choice(FNS)
    fnir = table[qual]
    generated = None
    is_gen = False
    if "no-generated-programs" not in quarantine and rng.random() < 0.5:
        from .. import ir as _ir, progen

        generated, is_gen = progen.gen_program(rng)
        qual, fnir = "rf", dict(_ir.all_functions(generated))["rf"]
    short = qual.split(".")[-1]
    metas = ["#enter", "#exit", "#value", "#error"]
    for lv in loop_vars(fnir):
        metas += [f"#loop_{lv}", f"#endloop_{lv}"]
    if short in GEN_FNS or is_gen:
        metas += ["#yield", "#receive"]
    if "no-fall-off" in quarantine and short in ("retnone", "genloop", "fortuple"):
        metas.remove("#value")
    sels = [meta_sel(qual, m) for m in metas]
    # a few ordinary variables in the same stream: entry precedes, exit follows all of them
    from .. import ir

    forms = ir.bound_names(fnir)
    names = [n for n, f in forms.items() if f != {"decl"}]
    picked = rng.sample(names, min(len(names), rng.choice([0, 1, 2])))
    # parameters are bound "at entry" all together: the relative order of two parameters'
    # events is not specified, so at most one parameter goes into the merged stream
    params = [n for n in picked if "param" in forms[n]]
    picked = [n for n in picked if n not in params[1:]]
    for n in picked:
        sels.append(meta_sel(qual, n))
    if rng.random() < 0.3:
        # drop a random subset so that the delimiters come from partial capture sets too
        keep = [s for s in sels if rng.random() < 0.7]
        sels = keep or sels
    ops = []
    if "no-earlier-probes" not in quarantine and rng.random() < 0.2:
        # an earlier probe asked for some of these events and is over; another probe, asking for
        # something else, is active when the probe under judgement is opened
        import copy

        pre = copy.deepcopy(rng.sample(sels, rng.randint(1, len(sels))))
        mid = [meta_sel(qual, rng.choice(["#enter"] + names[:2]))]
        ops += [{"op": "mk", "id": "pre", "sels": pre, "inv": "C06.meta"}, {"op": "enter", "id": "pre"}]
        if rng.random() < 0.5:
            op = call_shape(rng, qual, fnir, "k1")
            op["tape"] = gen_tape(rng, rng.randint(0, 12), odd=0.3)
            op["faults"] = {}
            if not (short in GEN_FNS or is_gen):
                ops.append(op)
        ops += [{"op": "exit", "id": "pre"},
                {"op": "mk", "id": "mid", "sels": mid, "inv": "C06.meta"}, {"op": "enter", "id": "mid"}]
    ops += [{"op": "mk", "id": "p0", "sels": sels, "inv": "C06.meta"}, {"op": "enter", "id": "p0"}]
    if "no-failing-subscriber" not in quarantine and rng.random() < 0.2 and not (short in GEN_FNS or is_gen):
        # a subscriber of the probe fails on its k-th event: the activation it strikes ends by
        # raising, and is still closed properly
        ops.append({"op": "stage", "id": "p0", "kind": "whole", "cap": None, "raises": rng.randint(1, 10)})
    if "no-wrapper-form" not in quarantine and rng.random() < 0.3:
        # the wrapper form f(!#enter, #error, !!#exit), as a second probe
        wsel = {"levels": [{"fn": qual, "caps": [{"var": "#error", "as": "#error"}], "sibs": []}],
                "focus": {"var": "#enter", "as": "#enter"},
                "extra_focus": [{"var": "#exit", "as": "#exit"}], "wrap": True}
        ops += [{"op": "mk", "id": "w0", "sels": [wsel], "inv": "C06.wrapper"}, {"op": "enter", "id": "w0"}]
    tl = 24 if tier == "quick" else 48
    for c in range(rng.randint(1, 3)):
        if (short in GEN_FNS or is_gen) and rng.random() < 0.8:
            g = f"g{c}"
            cyc = rng.random() < 0.4
            ops.append({"op": "gen_new", "gen": g, "fn": qual, "nargs": 1, "cycle": cyc})
            dropped = False
            for _ in range(rng.randint(1, 7)):
                k = rng.choice(["gen_next"] * 4 + ["gen_send"] * 3 + ["gen_throw", "gen_close", "gen_drop"])
                ops.append({"op": k, "gen": g, "tape": gen_tape(rng, 8, odd=0.4),
                            "faults": gen_faults(rng, 8, rng.choice([0, 0, 0, 1]))})
                if k == "gen_throw" and rng.random() < 0.4:
                    ops[-1]["exc"] = "stop"
                if k == "gen_drop":
                    dropped = True
                    break
            if not dropped:
                ops.append({"op": rng.choice(["gen_close", "gen_drop"]), "gen": g, "tape": [], "faults": {}})
            if cyc:
                ops.append({"op": "gc", "tape": [], "faults": {}})
        else:
            op = call_shape(rng, qual, fnir, "k1")
            op["tape"] = gen_tape(rng, rng.randint(0, tl), odd=0.3)
            op["faults"] = gen_faults(rng, 30, rng.choice([0, 0, 1, 1, 2]), pbase=0.3)
            ops.append(op)
    if any(o.get("id") == "w0" for o in ops):
        ops.append({"op": "exit", "id": "w0"})
    ops.append({"op": "exit", "id": "p0"})
    if any(o.get("id") == "mid" for o in ops):
        ops.append({"op": "exit", "id": "mid"})
    # KF-C06-3: a return value superseded in a finally clause (or by a failing context-manager exit)
    # is still reported; with the finding quarantined that one event is optional, everything else judged
    sc = {"prog": "forms", "ops": ops, "exact_failures": True,
          "superseded_returns": "kept" if "superseded-return-reported" in quarantine else "void"}
    if generated:
        sc.update({"prog": "generated", "program": generated, "prog_name": f"gen{rng.randrange(1 << 40):x}"})
    return sc


def run(scenario):
    return Engine(scenario, judge=JUDGE).run()
