"""C04 -- overriding a focus variable is equivalent to substituting the assigned value."""

from .. import ir
from ..engine1 import Engine
from .common import call_shape, fn_table, gen_faults, gen_tape

PROP = "C04"
JUDGE = ("C04.",)
PROGRAMS = ["forms"]
RUNS = {"quick": 3000, "thorough": 150000}

FNS = ["plain", "tup_tuple", "tup_nested", "tup_star", "chain", "aug", "ann", "attr", "walrus",
       "forloop", "fortuple", "forstar", "nestloop", "whileloop", "tryexc", "withcm", "withret", "retnone",
       "kwargs", "callsother", "K.meth", "deco", "clo", "auglist", "withtwo", "withthree", "lamdef", "annattr",
       "slicestore"]


def gen_how(rng, ctx):
    r = rng.random()
    if r < 0.3:
        return ["const", rng.choice([0, 1, -5, 77, 500])]
    if r < 0.5:
        return ["add", rng.choice([1, 10, 100])]
    if r < 0.65 and ctx:
        return ["ctx_add", rng.choice(ctx)]
    if r < 0.85:
        return ["even_const", rng.choice([3, 42])]
    return ["odd_add", rng.choice([2, 20])]


def gen_reentrant(rng):
    """A subscriber of an overridable probe calls the probed function again while an event is being
    delivered to it: the binding that was being reported still gets the value supplied for *it*."""
    prog, fns = fn_table("forms")
    table = dict(fns)
    qual = rng.choice(["plain", "aug", "walrus", "forloop", "tryexc", "retnone"])
    fnir = table[qual]
    forms = ir.bound_names(fnir)
    names = [n for n, f in forms.items() if f != {"decl"} and "param" not in f]
    focus = rng.choice(names)
    sel = {"levels": [{"fn": qual, "caps": [], "sibs": []}], "focus": {"var": focus, "as": focus}}
    ops = [{"op": "mk", "id": "o0", "kind": "overridable", "sels": [sel], "how": gen_how(rng, []),
            "nojudge": True, "filtered": rng.random() < 0.5},
           {"op": "enter", "id": "o0"}]
    inner = call_shape(rng, qual, fnir, "k1")
    inner["tape"] = []
    ops.append({"op": "stage", "id": "o0", "kind": "whole", "cap": None,
                "reenter": {"at": rng.choice([1, 1, 2, 3]), "call": inner}})
    for _ in range(rng.randint(1, 3)):
        op = call_shape(rng, qual, fnir, "k1")
        op["tape"] = gen_tape(rng, rng.randint(0, 12), odd=0.3)
        op["faults"] = {}
        ops.append(op)
    return {"prog": "forms", "ops": ops, "exact_failures": True}


def gen(rng, tier, quarantine=()):
    if "no-reentrant-subscriber" not in quarantine and rng.random() < 0.05:
        return gen_reentrant(rng)
    prog, fns = fn_table("forms")
    table = dict(fns)
    qual = rng.choice(FNS)
    fnir = table[qual]
    generated = None
    if "no-generated-programs" not in quarantine and rng.random() < 0.4:
        from .. import progen

        generated, _ = progen.gen_program(rng, want_gen=False)
        qual, fnir = "rf", dict(ir.all_functions(generated))["rf"]
    forms = ir.bound_names(fnir)
    names = [n for n, f in forms.items() if f != {"decl"} and n not in fnir.get("free", ())]
    cands = names + ["#value"]
    if qual == "attr":
        cands.append("o.n")
    if qual == "K.meth":
        cands.append("self.n")
    focus = rng.choice(cands)
    refusal = False
    if qual == "clo" and rng.random() < 0.4:
        focus = "c0"  # closure variable: the attempt must be refused with OverrideException
        refusal = True
    ops = []
    # some overriders / probes reach the function along a call path (callsother > plain > x): such a
    # selector is deeper than one naming the function alone, and both may aim at the same binding
    via = "callsother" if (qual in ("plain", "aug") and not generated and rng.random() < 0.5) else None

    def levels_for(ctx):
        lv = [{"fn": qual, "caps": [{"var": c, "as": c} for c in ctx], "sibs": []}]
        if via and rng.random() < 0.5:
            lv.insert(0, {"fn": via, "caps": [], "sibs": []})
        return lv

    # overlays (tweak/rewrite) need a tooled function
    need_tool = False
    nover = rng.choice([1, 1, 2, 3])
    nplain = rng.choice([0, 1, 1, 2])
    recs = []
    for i in range(nover):
        kind = rng.choice(["overridable", "overridable", "tweak", "rewrite"])
        ctx = [n for n in names if n != focus and n not in fnir.get("mutable", ()) and rng.random() < 0.3][:2]
        if "param" in forms.get(focus, ()):
            ctx = [c for c in ctx if "param" not in forms[c]]
        sel = {"levels": levels_for(ctx), "focus": {"var": focus, "as": focus}}
        how = gen_how(rng, ctx)
        if refusal:
            how = ["const", 5]
        if kind == "tweak":
            how = ["const", rng.choice([0, 9, 123])]
            need_tool = True
        if kind == "rewrite":
            need_tool = True
        rec = {"op": "mk", "id": f"o{i}", "kind": kind, "sels": [sel], "how": how,
               "nojudge": True, "filtered": rng.random() < 0.5}
        if kind == "tweak" and not refusal and rng.random() < 0.4:
            # several entries in one tweaking() call: another variable of the function, another value
            others = [n for n in names if n != focus and "param" not in forms.get(n, ()) and n not in fnir.get("mutable", ())]
            if others:
                f2 = rng.choice(others)
                rec["more"] = [{"sel": {"levels": [{"fn": qual, "caps": [], "sibs": []}], "focus": {"var": f2, "as": f2}},
                                "how": ["const", rng.choice([1, 8, 321])]}]
        earlier = [r for r in recs if r["kind"] in ("tweak", "rewrite")]
        if kind in ("tweak", "rewrite") and earlier and nover == 2 and rng.random() < 0.6:
            # derived from the other overlay (base.tweaking(...)): it carries that overlay's rules --
            # the very same rule objects -- too.  Only as a pair: with a third overrider on the same
            # binding active in between, which of two shared occurrences an out-of-order exit takes
            # out decides the precedence, and the statement does not say
            rec["base"] = rng.choice(earlier)["id"]
        recs.append(rec)
    for i in range(nplain):
        v = focus if rng.random() < 0.7 and not refusal else rng.choice(names)
        ctx = [n for n in names if n != v and n not in fnir.get("mutable", ()) and rng.random() < 0.3][:1]
        if "param" in forms.get(v, ()):
            ctx = [c for c in ctx if "param" not in forms[c]]
        if not refusal and focus not in ctx and v != focus and rng.random() < 0.5 and not focus.startswith("#") and "." not in focus and focus not in fnir.get("mutable", ()):
            if not ("param" in forms.get(v, ()) and "param" in forms.get(focus, ())):
                ctx.append(focus)
        sel = {"levels": levels_for(ctx), "focus": {"var": v, "as": v}}
        recs.append({"op": "mk", "id": f"q{i}", "kind": "probe", "sels": [sel], "inv": "C04.stream"})
    if need_tool:
        if "no-probe-before-tooling" not in quarantine and rng.random() < 0.2:
            # a probe has come and gone before the function is tooled for the overlays: nothing of
            # it may be left that keeps the tooling from taking effect
            v0 = rng.choice(names)
            pre = {"levels": [{"fn": qual, "caps": [], "sibs": []}], "focus": {"var": v0, "as": v0}}
            ops += [{"op": "mk", "id": "pre", "kind": "probe", "sels": [pre], "nojudge": True},
                    {"op": "enter", "id": "pre"}, {"op": "exit", "id": "pre"}]
        ops.append({"op": "tool", "fn": qual, "how": "inplace"})
        if via:
            ops.append({"op": "tool", "fn": via, "how": "inplace"})
    rng.shuffle(recs)  # activation order drawn by the scheduler
    # (an overlay is made, and activated, after the one it is derived from: the two share rule
    # objects, and with the base activated on top of its derivative the shared rule is on the
    # handler list twice -- which occurrence counts for "most recently activated" is not stated)
    recs.sort(key=lambda r: 1 if r.get("base") else 0)
    ops += recs
    live = []
    # a subscriber of an overridable probe (attached after the override) fails on its k-th event:
    # the failure aborts that call, and must leave nothing behind for the bindings that follow
    failing = None
    if "no-failing-subscriber" not in quarantine and rng.random() < 0.2 and not refusal \
            and not focus.startswith("#") and "." not in focus:
        ov = [r for r in recs if r["kind"] == "overridable"]
        if ov:
            failing = rng.choice(ov)["id"]
    for r in recs:
        ops.append({"op": "enter", "id": r["id"]})
        live.append(r["id"])
        if r["id"] == failing:
            ops.append({"op": "stage", "id": failing, "kind": "accum", "cap": focus, "raises": rng.choice([1, 1, 2, 3])})
        if rng.random() < 0.2:
            op = call_shape(rng, qual, fnir, "k1")
            op["tape"] = gen_tape(rng, rng.randint(0, 16), odd=0.3)
            op["faults"] = {}
            ops.append(op)
    if "no-refused-activation" not in quarantine and rng.random() < 0.25:
        # another probe on the same function is refused while the overrides are live:
        # the refusal must not disturb them
        bad = {"levels": [{"fn": qual, "caps": [], "sibs": []}], "focus": {"var": "nosuchvar", "as": "nosuchvar"}}
        if rng.random() < 0.4:
            # refused part-way: the chain runs through something that cannot be instrumented
            bad = {"levels": [{"fn": qual, "caps": [], "sibs": []}, {"fn": "NOTFN", "caps": [], "sibs": []}],
                   "focus": {"var": "#value", "as": "v"}}
        ops.append({"op": "mk", "id": "bad", "kind": "probe", "sels": [bad], "nojudge": True, "expect_refusal": True})
        ops.append({"op": "enter", "id": "bad"})
    tl = 24 if tier == "quick" else 48
    for c in range(rng.randint(1, 3) + (2 if failing else 0)):
        op = call_shape(rng, via, table[via], "k1") if (via and rng.random() < 0.8) else call_shape(rng, qual, fnir, "k1")
        op["tape"] = gen_tape(rng, rng.randint(0, tl), odd=0.3)
        op["faults"] = gen_faults(rng, 30, rng.choice([0, 0, 0, 1]))
        ops.append(op)
        bases = [r.get("base") for r in recs if r.get("base") in live]
        if bases and rng.random() < 0.5:
            # the base ends while the overlay derived from it stays
            live.remove(bases[0])
            ops.append({"op": "exit", "id": bases[0]})
        elif live and rng.random() < 0.3:
            # mostly innermost first; overlays and probes may also end in any other order
            ops.append({"op": "exit", "id": live.pop(rng.randrange(len(live)) if rng.random() < 0.4 else -1)})
    sc = {"prog": "forms", "ops": ops, "exact_failures": True}
    if generated:
        sc.update({"prog": "generated", "program": generated, "prog_name": f"gen{rng.randrange(1 << 40):x}"})
    return sc


def run(scenario):
    return Engine(scenario, judge=JUDGE).run()
