"""C13 -- method selectors bind to the right function and the right receiver."""

from ..engine1 import Engine
from .common import gen_faults, gen_tape

PROP = "C13"
JUDGE = ("C13.",)
PROGRAMS = ["recv"]
RUNS = {"quick": 3000, "thorough": 150000}

# method families: (trace qualname, receiver param, local, instances (name, class), class paths that reach it)
FAM = {
    "K.meth": {"param": "self", "local": "x", "inst": [("k1", "K"), ("k2", "K"), ("s1", "Sub")],
               "cls_paths": ["K.meth", "Sub.meth"], "attr": "meth"},
    "K.run": {"param": "self", "local": "x", "inst": [("k1", "K"), ("k2", "K"), ("s1", "Sub")],
              "cls_paths": ["K.run", "Sub.run"], "attr": "run"},
    "Sub.other": {"param": "self", "local": "y", "inst": [("s1", "Sub")], "cls_paths": ["Sub.other"], "attr": "other"},
    "E.meth": {"param": "this", "local": "x", "inst": [("e1", "E"), ("e2", "E"), ("e3", "E")],
               "cls_paths": ["E.meth"], "attr": "meth"},
    "N.meth": {"param": "self", "local": "x", "inst": [("n1", "N"), ("n2", "N")], "cls_paths": ["N.meth"], "attr": "meth"},
    "R.meth": {"param": "self", "local": "x", "inst": [("r1", "R"), ("r2", "R")], "cls_paths": ["R.meth"], "attr": "meth"},
    "Z.meth": {"param": "me", "local": "x", "inst": [("z1", "Z"), ("z2", "Z")], "cls_paths": ["Z.meth"], "attr": "meth"},
    "W.dm": {"param": "me", "local": "x", "inst": [("w1", "W"), ("w2", "W")], "cls_paths": ["W.dm"], "attr": "dm"},
    "W.In.meth": {"param": "self", "local": "x", "inst": [("i1", "In"), ("i2", "In")],
                  "cls_paths": ["W.In.meth"], "attr": "meth"},
    "W.prop": {"param": "self", "local": "x", "inst": [("w1", "W"), ("w2", "W")], "cls_paths": ["W.prop"],
               "attr": "prop", "property": True},
}
PLAIN = {"meth": "x", "other": "y"}


def gen_failing_nested(rng):
    """An object-bound call path (k1.run > helper > v) next to a total probe on the method whose
    subscriber fails when a call of the method is wound up: afterwards the bound probe still
    reports only what happens under calls on its own receiver."""
    name, cls = rng.choice([("k1", "K"), ("k2", "K"), ("s1", "Sub")])
    lv0 = {"fn": "K.run", "caps": [], "sibs": [], "recv": name, "recv_cls": cls, "recv_param": "self",
           "recv_path": f"{name}.run"}
    p0 = {"levels": [lv0, {"fn": "helper", "caps": [], "sibs": []}], "focus": {"var": "v", "as": "v"}}
    t0 = {"levels": [{"fn": "K.run", "caps": [{"var": "x", "as": "x"}], "sibs": [], "recv_path": "K.run"}],
          "focus": None, "mode": "total"}
    ops = [{"op": "mk", "id": "p0", "sels": [p0], "inv": "C13.receiver", "style": 0},
           {"op": "mk", "id": "t0", "sels": [t0], "raw": True, "nojudge": True},
           {"op": "enter", "id": "p0"}, {"op": "enter", "id": "t0"},
           {"op": "stage", "id": "t0", "kind": "whole", "cap": None, "raises": rng.choice([1, 1, 2, 3])}]
    for _ in range(rng.randint(4, 9)):
        if rng.random() < 0.3:
            ops.append({"op": "call", "fn": "helper", "nargs": 1, "tape": [], "faults": {}})
        else:
            who = rng.choice(["k1", "k2", "s1"])
            ops.append({"op": "call", "fn": f"{who}.run", "nargs": 1, "tape": [], "faults": {}})
    ops += [{"op": "exit", "id": "t0"}, {"op": "call", "fn": "helper", "nargs": 1, "tape": [], "faults": {}},
            {"op": "exit", "id": "p0"}]
    return {"prog": "recv", "ops": ops, "activation_inv": "C13.activation", "exact_failures": True}


def gen_inner_receiver(rng):
    """The object-bound method is not the head of the call path: K.run2 > k1.meth > x fires for calls
    of meth on k1 made under run2 (on whatever receiver run2 itself was called), and for nothing else."""
    name, cls = rng.choice([("k1", "K"), ("k2", "K"), ("s1", "Sub")])
    head = {"fn": "K.run2", "caps": [], "sibs": [], "recv_path": "K.run2"}
    if rng.random() < 0.3:
        head["caps"].append({"var": "y", "as": "y0"})
    inner = {"fn": "K.meth", "caps": [], "sibs": [], "recv": name, "recv_cls": cls, "recv_param": "self",
             "recv_path": f"{name}.meth"}
    sel = {"levels": [head, inner], "focus": {"var": rng.choice(["x", "p"]), "as": "foc"}}
    ops = [{"op": "mk", "id": "p0", "sels": [sel], "inv": "C13.receiver", "style": 0}, {"op": "enter", "id": "p0"}]
    for _ in range(rng.randint(3, 8)):
        who = rng.choice(["k1", "k2", "s1"])
        ops.append({"op": "call", "fn": f"{who}.{rng.choice(['run2', 'run2', 'meth'])}", "nargs": 1, "tape": [], "faults": {}})
    ops.append({"op": "exit", "id": "p0"})
    return {"prog": "recv", "ops": ops, "activation_inv": "C13.activation"}


def gen_two_receivers(rng):
    """Two object-bound methods in one call path: k1.cross > k2.meth > x fires for calls of meth on k2
    made under cross called on k1 (cross calls meth on the instance k2), and for nothing else."""
    outer = rng.choice(["k1", "k2", "s1"])
    inner = rng.choice(["k2", "k2", "k1"])
    head = {"fn": "K.cross", "caps": [], "sibs": [], "recv": outer, "recv_cls": "Sub" if outer == "s1" else "K",
            "recv_param": "self", "recv_path": f"{outer}.cross"}
    lv = {"fn": "K.meth", "caps": [], "sibs": [], "recv": inner, "recv_cls": "K", "recv_param": "self",
          "recv_path": f"{inner}.meth"}
    sel = {"levels": [head, lv], "focus": {"var": "x", "as": "foc"}}
    # (both levels report their receiver under the same name: which one the event shows is not judged)
    ops = [{"op": "mk", "id": "p0", "sels": [sel], "inv": "C13.receiver", "style": 0, "count_only": True},
           {"op": "enter", "id": "p0"}]
    for _ in range(rng.randint(3, 7)):
        who = rng.choice(["k1", "k2", "s1"])
        ops.append({"op": "call", "fn": f"{who}.{rng.choice(['cross', 'cross', 'meth'])}", "nargs": 1, "tape": [], "faults": {}})
    ops.append({"op": "exit", "id": "p0"})
    return {"prog": "recv", "ops": ops, "activation_inv": "C13.activation"}


def gen(rng, tier, quarantine=()):
    if "no-failing-subscriber" not in quarantine and rng.random() < 0.06:
        return gen_failing_nested(rng)
    if "single-bound-level" not in quarantine and rng.random() < 0.05:
        return gen_two_receivers(rng)
    if "no-inner-receiver" not in quarantine and rng.random() < 0.06:
        return gen_inner_receiver(rng)
    fams = [f for f in FAM if f"no:{f}" not in quarantine]
    if "no-unhashable" in quarantine:
        fams = [f for f in fams if f != "N.meth"]
    fam = rng.choice(fams)
    F = FAM[fam]
    ops = []
    nprobes = rng.choice([1, 2, 2, 3])
    for i in range(nprobes):
        r = rng.random()
        focus = rng.choice([F["local"], F["local"], "p", "#value"]) if not F.get("property") else rng.choice([F["local"], "#value"])
        if "no-enter-focus" not in quarantine and rng.random() < 0.1:
            focus = "#enter"
        lv = {"fn": fam, "caps": [], "sibs": []}
        if r < 0.45 and not F.get("property"):
            name, cls = rng.choice(F["inst"])
            if "no-equal-receivers" in quarantine and fam in ("E.meth", "N.meth"):
                name, cls = F["inst"][-1] if fam == "E.meth" else F["inst"][0]
            path = f"{name}.{F['attr']}" if rng.random() < 0.7 else f"box.{name}.{F['attr']}"
            lv.update({"recv": name, "recv_cls": cls, "recv_param": F["param"], "recv_path": path})
        elif r < 0.85:
            lv["recv_path"] = rng.choice(F["cls_paths"])
        else:
            # the plain namesake function, if any: must be unaffected / resolve to itself
            if F["attr"] in PLAIN:
                lv = {"fn": F["attr"], "caps": [], "sibs": []}
                focus = rng.choice([PLAIN[F["attr"]], "p"])
            else:
                lv["recv_path"] = F["cls_paths"][0]
        if lv["fn"] == fam and focus != "#enter":
            # context captures, among them the receiver parameter named explicitly
            if rng.random() < 0.3 and focus != F["param"]:
                lv["caps"].append({"var": F["param"], "as": F["param"]})
            if rng.random() < 0.2 and focus not in ("p",) and not F.get("property"):
                lv["caps"].append({"var": "p", "as": "p"})
        sel = {"levels": [lv], "focus": {"var": focus, "as": "foc" if focus.startswith("#") else focus}}
        ops.append({"op": "mk", "id": f"p{i}", "sels": [sel], "inv": "C13.receiver", "style": rng.randrange(2)})
    pending = [f"p{i}" for i in range(nprobes)]
    live = []
    nsteps = rng.randint(4, 12)
    for _ in range(nsteps):
        r = rng.random()
        if r < 0.25 and pending:
            pid = pending.pop(0)
            ops.append({"op": "enter", "id": pid})
            live.append(pid)
        elif r < 0.33 and live:
            ops.append({"op": "exit", "id": live.pop()})
        elif r < 0.45 and F["attr"] in PLAIN:
            ops.append({"op": "call", "fn": F["attr"], "nargs": 1, "tape": [], "faults": {}})
        else:
            name, _ = rng.choice(F["inst"])
            op = {"op": "call", "fn": f"{name}.{F['attr']}", "nargs": 0 if F.get("property") else 1,
                  "tape": [], "faults": gen_faults(rng, 3, rng.choice([0, 0, 0, 1]))}
            if F.get("property"):
                op["attr"] = True
            ops.append(op)
    for pid in reversed(live):
        ops.append({"op": "exit", "id": pid})
    return {"prog": "recv", "ops": ops, "activation_inv": "C13.activation"}


def run(scenario):
    return Engine(scenario, judge=JUDGE).run()
