"""Generator helpers shared by the lenses."""

from .. import catalogue, ir


def gen_tape(rng, n, hi=8, odd=0.0):
    """odd: probability of forcing a draw odd (biases ENV.cond towards true
    so that scheduler-driven loops and call trees grow)."""
    out = []
    for _ in range(n):
        v = rng.randrange(hi)
        if odd and rng.random() < odd:
            v |= 1
        out.append(v)
    return out


def gen_faults(rng, maxk, nmax, pbase=0.15):
    faults = {}
    n = 0
    while n < nmax and rng.random() < (0.6 if n else 1.0):
        k = rng.randrange(maxk)
        faults[str(k)] = "B" if rng.random() < pbase else "E"
        n += 1
    return faults


def fn_table(prog_name):
    prog = catalogue.get(prog_name)
    return prog, ir.all_functions(prog)


def call_shape(rng, qual, fnir, inst=None):
    """Build the call op skeleton for a function: name to call and nargs."""
    params = list(fnir.get("params", []))
    target = qual
    if params and params[0] == "self":
        params = params[1:]
        target = f"{inst}.{qual.split('.')[-1]}"
    nd = fnir.get("defaults", 0)
    lo = len(params) - nd
    hi = len(params) + (2 if fnir.get("vararg") else 0)
    nargs = rng.randint(lo, hi)
    op = {"op": "call", "fn": target, "nargs": nargs}
    kw = []
    for k in fnir.get("kwonly", []):
        if rng.random() < 0.5:
            kw.append(k)
    if fnir.get("kwarg") and rng.random() < 0.5:
        kw.append("zz")
    if kw:
        op["kw"] = kw
    return op


def simple_sel(fn, focus=None, caps=(), mode=None, total_caps=None):
    lv = {"fn": fn, "caps": [{"var": c, "as": c} for c in caps], "sibs": []}
    sel = {"levels": [lv], "focus": None}
    if focus is not None:
        sel["focus"] = {"var": focus, "as": focus}
    if mode:
        sel["mode"] = mode
    return sel
