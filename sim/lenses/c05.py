"""C05 -- exactly-once while active, no trace afterwards (lifecycle lens)."""

from ..engine1 import Engine
from .c03 import FNS, local_vars, tree_tape
from .common import gen_faults

PROP = "C05"
JUDGE = ("C05.",)
PROGRAMS = ["calltree", "genctx", "forms"]
RUNS = {"quick": 3000, "thorough": 150000}


def gen_sel(rng, fns):
    f = rng.choice(fns)
    r = rng.random()
    if r < 0.6:
        v = rng.choice(local_vars(f))
        ctx = [c for c in local_vars(f) if c != v and c != "p" and rng.random() < 0.25][:1]
        return {"levels": [{"fn": f, "caps": [{"var": c, "as": c} for c in ctx], "sibs": []}],
                "focus": {"var": v, "as": v}}
    if r < 0.85:
        g = rng.choice(fns)
        v = rng.choice(local_vars(g))
        return {"levels": [{"fn": f, "caps": [], "sibs": []}, {"fn": g, "caps": [], "sibs": []}],
                "focus": {"var": v, "as": v}}
    vs = rng.sample(local_vars(f), 2)
    return {"levels": [{"fn": f, "caps": [{"var": c, "as": c} for c in vs], "sibs": []}],
            "focus": None, "mode": "total"}


def gen_generator_history(rng, tier):
    """Probes / overlays that end while an instrumented generator is suspended: once a
    probe is over it receives nothing and none of its handlers is installed any more,
    whatever the generator does afterwards (resumed, closed, dropped)."""
    from .common import gen_tape

    def sel(chain, focus):
        return {"levels": [{"fn": f, "caps": [], "sibs": []} for f in chain], "focus": {"var": focus, "as": focus}}

    choices = [(["g"], "a"), (["gen", "g"], "a"), (["gen"], "x"), (["gen2", "g"], "a"), (["gen2"], "i")]
    ops = []
    kinds = {}
    for pid in ("P", "Q"):
        chain, focus = rng.choice(choices)
        kinds[pid] = rng.choice(["probe", "probe", "overlay"])
        ops.append({"op": "mk", "id": pid, "kind": kinds[pid], "sels": [sel(chain, focus)], "inv": "C05.exactly_once"})
    if "overlay" in kinds.values():
        ops[0:0] = [{"op": "tool", "fn": f, "how": "inplace"} for f in ("g", "gen", "gen2")]
    gfn = rng.choice(["gen", "gen2"])
    tape = lambda: gen_tape(rng, 6, hi=12, odd=0.6)
    ops += [{"op": "enter", "id": "P"},
            {"op": "gen_new", "gen": "g0", "fn": gfn, "nargs": 1, "cycle": rng.random() < 0.2},
            {"op": "gen_next", "gen": "g0", "tape": tape(), "faults": {}}]
    if rng.random() < 0.5:
        ops.append({"op": "gen_next", "gen": "g0", "tape": tape(), "faults": {}})
    ops.append({"op": "exit", "id": "P", "exc": rng.random() < 0.3})
    if rng.random() < 0.6:
        ops.append({"op": "enter", "id": "Q"})
    for _ in range(rng.randint(1, 3)):
        ops.append(rng.choice([
            {"op": "gen_next", "gen": "g0", "tape": tape(), "faults": {}},
            {"op": "call", "fn": "g", "nargs": 1, "tape": [], "faults": {}},
        ]))
    ops.append({"op": rng.choice(["gen_close", "gen_drop", "gen_next"]), "gen": "g0", "tape": [1, 0, 0], "faults": {}})
    ops.append({"op": "gc", "tape": [], "faults": {}})
    ops.append({"op": "call", "fn": "g", "nargs": 1, "tape": [], "faults": {}})
    ops.append({"op": "exit", "id": "Q"})
    ops.append({"op": "call", "fn": "g", "nargs": 1, "tape": [], "faults": {}})
    return {"prog": "genctx", "ops": ops, "relax_inflight": True}


def gen_mid_call(rng):
    """A probe is activated -- or deactivated -- from inside a call of a function that another probe
    instruments (a subscriber, or the function itself, does it).  When that call has returned the
    probe is active (resp. gone) like any other: it hears of the calls that follow, exactly once."""
    f = rng.choice(FNS)
    g = rng.choice(FNS)
    one = lambda fn, v: {"levels": [{"fn": fn, "caps": [], "sibs": []}], "focus": {"var": v, "as": v}}
    ops = [{"op": "mk", "id": "p0", "sels": [one(f, rng.choice(local_vars(f)))], "inv": "C05.exactly_once", "kind": "probe"},
           {"op": "mk", "id": "p1", "sels": [one(g, rng.choice(local_vars(g)))], "inv": "C05.exactly_once", "kind": "probe"},
           {"op": "enter", "id": "p0"}]
    pc = 0.8
    call = lambda fn: {"op": "call", "fn": fn, "nargs": 1, "tape": tree_tape(rng, rng.randint(4, 16), {f, g}, pc, 0.0), "faults": {}}
    mode = rng.choice(["enter", "enter", "exit"])
    if mode == "enter":
        c = call(f)
        c["during"] = {"at": rng.randint(0, 5), "ops": [{"op": "enter", "id": "p1"}]}
        ops += [c, call(g), call(f), call("S"), {"op": "exit", "id": "p1"}, call(g), {"op": "exit", "id": "p0"}, call(f)]
    else:
        ops += [{"op": "enter", "id": "p1"}, call(g)]
        c = call(f)
        c["during"] = {"at": rng.randint(0, 5), "ops": [{"op": "exit", "id": "p1"}]}
        ops += [c, call(g), call(f), {"op": "exit", "id": "p0"}, call(g), call(f)]
    return {"prog": "calltree", "ops": ops}


def gen_twin_closures(rng):
    """Two function objects made by one factory (they share a code object), probed with the same
    captures at overlapping times: each probe hears of its own function only, exactly once."""
    from .common import gen_tape

    one = lambda fn, v: {"levels": [{"fn": fn, "caps": [], "sibs": []}], "focus": {"var": v, "as": v}}
    v = rng.choice(["x", "p", "x"])
    ops = [{"op": "mk", "id": "pa", "sels": [one("clo", v)], "inv": "C05.exactly_once", "kind": "probe"},
           {"op": "mk", "id": "pb", "sels": [one("clo2", v)], "inv": "C05.exactly_once", "kind": "probe"}]
    call = lambda: {"op": "call", "fn": rng.choice(["clo", "clo2"]), "nargs": 1, "tape": gen_tape(rng, 2), "faults": {}}
    first, second = rng.sample(["pa", "pb"], 2)
    ops += [{"op": "enter", "id": first}, call(), call(), {"op": "enter", "id": second}, call(), call(), call()]
    out1, out2 = rng.sample([first, second], 2)
    ops += [{"op": "exit", "id": out1}, call(), call(), {"op": "exit", "id": out2}, call(), call()]
    return {"prog": "forms", "ops": ops}


def gen(rng, tier, quarantine=()):
    if "no-generators" not in quarantine and rng.random() < 0.12:
        return gen_generator_history(rng, tier)
    if "no-twin-closures" not in quarantine and rng.random() < 0.05:
        return gen_twin_closures(rng)
    if "no-change-in-mid-call" not in quarantine and rng.random() < 0.06:
        return gen_mid_call(rng)
    if "no-change-in-mid-call" not in quarantine and "no-generators" not in quarantine and rng.random() < 0.04:
        from .c17 import gen_change_inside_generator

        return gen_change_inside_generator(rng, tier, inv="C05.exactly_once")
    fns = rng.sample(FNS, rng.choice([1, 2, 2, 3]))
    nprobes = rng.randint(2, 4)
    kinds = {}
    ops = []
    tooled = set()
    for i in range(nprobes):
        pid = f"p{i}"
        kinds[pid] = rng.choice(["block", "global", "global"])
        nsel = rng.choice([1, 1, 2])
        sels = [gen_sel(rng, fns) for _ in range(nsel)]
        op = {"op": "mk", "id": pid, "sels": sels, "inv": "C05.exactly_once", "kind": "probe"}
        if "no-overlays" not in quarantine and rng.random() < 0.25:
            # an Overlay (tap) instead of a probe: it tools nothing itself, so its
            # functions are tooled in place up front
            op["kind"] = "overlay"
            sels[:] = sels[:1]
            if sels[0].get("mode") == "total":
                op["ptype"] = "total"
            for lv in sels[0]["levels"]:
                tooled.add(lv["fn"])
        if any(s.get("mode") == "total" for s in sels):
            op["raw"] = True
            for s in sels:
                if s.get("focus") is not None:
                    s["mode"] = "immediate"
        ops.append(op)
        if "no-completion-raises" not in quarantine and rng.random() < 0.12 and sels[0].get("focus") and not op.get("raw") and op["kind"] == "probe":
            ops.append({"op": "stage", "id": pid, "kind": rng.choice(["min", "max", "last"]),
                        "cap": sels[0]["focus"]["as"], "bare": rng.random() < 0.7})
        if "no-failing-subscriber" not in quarantine and rng.random() < (0.3 if op.get("raw") else 0.1) and op["kind"] == "probe" \
                and not any(o.get("raises") for o in ops):  # one failing subscriber per history (see DESIGN 3.4)
            # a subscriber of the probe itself fails on its k-th event / record (for a total probe:
            # while the outermost call is being wound up): the context must still be put back
            ops.append({"op": "stage", "id": pid, "kind": "whole", "cap": None, "raises": rng.choice([1, 1, 2, 3])})
    if "no-failed-activation" not in quarantine and rng.random() < 0.25:
        # a probe whose second selector is refused at activation: the failed
        # activation must leave nothing behind (the first selector's tooling!)
        good = gen_sel(rng, fns)
        bad = {"levels": [{"fn": rng.choice(fns), "caps": [], "sibs": []}],
               "focus": {"var": "nosuchvar", "as": "nosuchvar"}}
        if "no-uninstrumentable-in-chain" not in quarantine and rng.random() < 0.4:
            # refused for another reason: the chain runs through something that is not a Python
            # function (the functions named before it have been tooled by then)
            bad = {"levels": [{"fn": rng.choice(fns), "caps": [], "sibs": []}, {"fn": "NOTFN", "caps": [], "sibs": []}],
                   "focus": {"var": "#value", "as": "v"}}
        sels_bad = [good, bad] if rng.random() < 0.7 else [bad]
        ops.append({"op": "mk", "id": "bad", "sels": sels_bad, "inv": "C05.exactly_once",
                    "kind": "probe", "expect_refusal": True, "raw": good.get("mode") == "total"})
        kinds["bad"] = "refused"
    nsteps = rng.randint(4, 12) if tier == "quick" else rng.randint(6, 28)
    inactive = [f"p{i}" for i in range(nprobes)] + (["bad"] if "bad" in kinds else [])
    if "no-tagged-capture" not in quarantine and rng.random() < 0.2:
        # one more probe on a variable the others may share, restricted to the bindings that carry
        # a tag (x:@A): it instruments fewer places than a plain capture of x does, and must not
        # take anything away from the plain ones (workload only: its own stream is not judged)
        f = rng.choice(fns)
        ops.append({"op": "mk", "id": "tg", "kind": "probe", "nojudge": True, "inv": "C05.exactly_once",
                    "sels": [{"levels": [{"fn": f, "caps": [], "sibs": []}],
                              "focus": {"var": "x", "as": "x", "tag": "@A"}}]})
        kinds["tg"] = "global"
        inactive.insert(rng.randint(0, len(inactive)), "tg")
    blocks = []  # stack of active block probes
    active = []
    pc = rng.choice([0.6, 0.8])
    for _ in range(nsteps):
        r = rng.random()
        if r < 0.3 and inactive:
            pid = inactive.pop(rng.randrange(len(inactive)))
            ops.append({"op": "enter", "id": pid})
            if kinds[pid] == "refused":
                continue  # the activation fails; nothing becomes active
            active.append(pid)
            if kinds[pid] == "block":
                blocks.append(pid)
        elif r < 0.55 and active:
            # block probes leave in LIFO order among themselves; global probes in any order
            cands = [p for p in active if kinds[p] == "global"]
            if blocks:
                cands.append(blocks[-1])
            if "lifo-only" in quarantine:
                cands = [active[-1]]
            pid = rng.choice(cands)
            active.remove(pid)
            if pid in blocks:
                blocks.remove(pid)
            ops.append({"op": "exit", "id": pid, "exc": kinds[pid] == "block" and rng.random() < 0.3})
        elif r < 0.6 and "no-double-exit" not in quarantine:
            done = [f"p{i}" for i in range(nprobes) if f"p{i}" not in active and f"p{i}" not in inactive]
            if done:
                ops.append({"op": "exit", "id": rng.choice(done), "again": True})
        else:
            ops.append({"op": "call", "fn": rng.choice(fns + ["S"]), "nargs": 1,
                        "tape": tree_tape(rng, rng.randint(2, 24), set(fns), pc, rng.choice([0.0, 0.5])),
                        "faults": gen_faults(rng, 40, rng.choice([0, 0, 1]))})
    ops[0:0] = [{"op": "tool", "fn": f, "how": "inplace"} for f in sorted(tooled)]
    # recovery: everything off, then a fresh probe sees a clean stream
    for pid in reversed(active):
        ops.append({"op": "exit", "id": pid})
    f = rng.choice(fns)
    ops.append({"op": "mk", "id": "fresh", "inv": "C05.exactly_once",
                "sels": [{"levels": [{"fn": f, "caps": [], "sibs": []}],
                          "focus": {"var": "x", "as": "x"}}]})
    ops.append({"op": "enter", "id": "fresh"})
    ops.append({"op": "call", "fn": f, "nargs": 1, "tape": tree_tape(rng, 8, set(fns), pc), "faults": {}})
    ops.append({"op": "exit", "id": "fresh"})
    ops.append({"op": "call", "fn": f, "nargs": 1, "tape": tree_tape(rng, 6, set(fns), pc), "faults": {}})
    return {"prog": "calltree", "ops": ops, "exact_failures": True}


def run(scenario):
    return Engine(scenario, judge=JUDGE).run()
