"""C03 -- call-path selectors; also the generator used by C07 (total mode).

Call trees are produced by the scheduler: the dispatcher actors A..D, M, S ask
the tape what to do next (rebind a local, call one of the others, recurse,
raise, return), so direct, indirect and recursive calls, repeated siblings and
re-entry after return / after a caught raise all come out of the tape.
"""

from .. import msel
from ..engine1 import Engine
from .common import gen_faults, gen_tape

PROP = "C03"
JUDGE = ("C03.",)
PROGRAMS = ["calltree", "genctx"]
RUNS = {"quick": 3000, "thorough": 150000}

FNS = ["A", "B", "C", "D"]


def local_vars(fn):
    return [fn.lower(), "x", "p", "r"]


def gen_selector(rng, total=False, quarantine=()):
    depth = rng.choice([1, 2, 2, 3, 3])
    allow_repeat = "no-repeat-fn" not in quarantine
    chain = []
    for _ in range(depth):
        f = rng.choice(FNS)
        if not allow_repeat or rng.random() < 0.8:
            while f in chain and len(set(chain)) < len(FNS):
                f = rng.choice(FNS)
        chain.append(f)
    if depth > 1 and rng.random() < 0.15:
        chain[0] = "E"  # the outermost function survives failures below it and carries on
    used_alias = set()
    levels = []
    focus = None
    for j, f in enumerate(chain):
        last = j == depth - 1
        vs = local_vars(f)
        caps = []
        ncap = rng.choice([0, 1, 1, 2])
        if total and last and depth == 1:
            ncap = max(ncap, 1)
        picked = rng.sample(vs, ncap)
        fvar = None
        if last and not total:
            fvar = rng.choice(vs + ["#value"] if rng.random() < 0.85 else ["#value"])
            picked = [v for v in picked if v != fvar]
            if fvar == "p":
                picked = [v for v in picked if v != "p"]
        for v in picked:
            alias = f"{v}{j}"
            caps.append({"var": v, "as": alias})
        sibs = []
        if rng.random() < 0.3:
            for _ in range(rng.choice([1, 1, 2])):
                cands = [g for g in FNS if g not in chain and g not in [s["fn"] for s in sibs]]
                if not cands:
                    break
                g = rng.choice(cands)
                sv = rng.choice(local_vars(g))
                sb = {"fn": g, "caps": [{"var": sv, "as": f"{sv}{j}s{len(sibs)}"}], "sibs": []}
                if rng.random() < 0.35:
                    # a sibling that itself names a nested call: f(g(b, h(c))) > k > x
                    h = rng.choice([x for x in FNS if x != g])
                    hv = rng.choice(local_vars(h))
                    if rng.random() < 0.3:
                        sb["caps"] = []
                    sb["sibs"].append({"fn": h, "caps": [{"var": hv, "as": f"{hv}{j}s{len(sibs)}n"}], "sibs": []})
                sibs.append(sb)
        levels.append({"fn": f, "caps": caps, "sibs": sibs})
        if fvar is not None:
            focus = {"var": fvar, "as": "foc" if fvar.startswith("#") else f"{fvar}f"}
    if focus is not None:
        # a nested sibling capturing the very binding that is the focus: whether the event for
        # that binding already carries the sibling's copy of it is not specified -> not generated
        for lv in levels:
            for sb in lv["sibs"]:
                sb["sibs"] = [n for n in sb["sibs"] if (n["fn"], n["caps"][0]["var"]) != (chain[-1], focus["var"])]
    sel = {"levels": levels, "focus": focus}
    if total:
        sel["mode"] = "total"
        if not any(lv["caps"] or lv["sibs"] for lv in levels):
            levels[-1]["caps"].append({"var": "x", "as": f"x{depth - 1}"})
    return sel


ARMS = ["loc", "x", "A", "B", "C", "D", "M", "raise", "ret"]


def tree_tape(rng, n, favoured, p_continue, p_raise=0.3):
    """Tape for the dispatcher family: even positions decide 'continue the
    loop', odd positions pick the arm; arms that call functions named by the
    selector are favoured so that the scheduler-produced call tree tends to
    exercise the selector (swarm-style bias, drawn per run)."""
    w = []
    for a in ARMS:
        if a in favoured:
            w.append(3.0)
        elif a in ("loc", "x"):
            w.append(1.5)
        elif a == "raise":
            w.append(p_raise)
        else:
            w.append(0.7)
    out = []
    for i in range(n):
        if i % 2 == 0:
            out.append(1 if rng.random() < p_continue else 0)
        else:
            out.append(rng.choices(range(len(ARMS)), weights=w)[0])
    return out


def gen_generator_paths(rng, tier):
    """Call paths through generators: a generator is started by one caller and advanced by another
    (the driver actor D, or the top level); what its body calls is matched against the activations
    that are executing *then*.  The histories are those of the C09 lens, judged as call paths.
    (Delegation with ``yield from`` is left out: open finding KF-C09-3.)"""
    from . import c05, c09

    if rng.random() < 0.5:
        # ... or: probes come and go at top level while a generator is suspended, and the driver
        # calls the functions the generator calls
        sc = c05.gen_generator_history(rng, tier)
    else:
        sc = c09.gen(rng, tier, quarantine=("no-yield-from", "no-failing-subscriber"))
    for op in sc["ops"]:
        if op["op"] == "mk":
            op["inv"] = "C03.embeddings"
    return sc


def gen(rng, tier, quarantine=(), total=False, inv="C03.embeddings"):
    if not total and inv == "C03.embeddings" and "no-generator-paths" not in quarantine and rng.random() < 0.1:
        return gen_generator_paths(rng, tier)
    ops = []
    nprobes = rng.choice([1, 1, 2])
    favoured = set()
    first = None
    for i in range(nprobes):
        sel = gen_selector(rng, total=total, quarantine=quarantine)
        if i and rng.random() < 0.2:
            # the very same selector text as the previous probe (compiled selectors are shared)
            import copy

            sel = copy.deepcopy([op for op in ops if op["op"] == "mk"][-1]["sels"][0])
        for lv in sel["levels"]:
            favoured.add(lv["fn"])
            for sb in msel.walk_sibs(lv):
                favoured.add(sb["fn"])
        first = first or sel["levels"][0]["fn"]
        op = {"op": "mk", "id": f"p{i}", "sels": [sel], "style": rng.randrange(2), "inv": inv}
        if total:
            op["raw"] = True
        ops.append(op)
        ops.append({"op": "enter", "id": f"p{i}"})
    tl = 40 if tier == "quick" else 90
    pc = rng.choice([0.6, 0.75, 0.9])
    failing = "no-failing-subscriber" not in quarantine and rng.random() < 0.1
    if failing:
        # a subscriber of one probe fails on its k-th event / record: the call it strikes is cut
        # short; what the calls after it produce is reported exactly as before
        victim = f"p{rng.randrange(nprobes)}"
        if not total and rng.random() < 0.6:
            # ... the failing one being a total probe on the outermost function of a chain: it fails
            # while that call is being wound up
            f0 = [op for op in ops if op["op"] == "mk"][-1]["sels"][0]["levels"][0]["fn"]
            v0 = rng.choice(local_vars(f0))
            ops.append({"op": "mk", "id": "t0", "raw": True, "nojudge": True, "inv": inv,
                        "sels": [{"levels": [{"fn": f0, "caps": [{"var": v0, "as": v0 + "t"}], "sibs": []}],
                                  "focus": None, "mode": "total"}]})
            ops.append({"op": "enter", "id": "t0"})
            victim = "t0"
        ops.append({"op": "stage", "id": victim, "kind": "whole", "cap": None,
                    "raises": rng.randint(1, 3 if victim == "t0" else 5)})
    for c in range(rng.randint(1, 3) + (2 if failing else 0)):
        r = rng.random()
        entry = first if r < 0.55 else ("S" if r < 0.7 else rng.choice(FNS + ["M"]))
        ops.append(
            {
                "op": "call",
                "fn": entry,
                "nargs": 1,
                "tape": tree_tape(rng, rng.randint(4, tl), favoured, pc, rng.choice([0.0, 0.3, 0.8])),
                "faults": gen_faults(rng, 60, rng.choice([0, 0, 0, 1, 2])),
            }
        )
        if c == 0 and nprobes > 1 and rng.random() < 0.3:
            # one of the probes ends, in any order; the others carry on
            ops.append({"op": "exit", "id": f"p{rng.randrange(nprobes)}"})
            ops.append(dict(ops[-2], tape=tree_tape(rng, rng.randint(4, tl), favoured, pc, 0.0), faults={}))
    return {"prog": "calltree", "ops": ops, "exact_failures": True}


def run(scenario):
    return Engine(scenario, judge=JUDGE).run()
