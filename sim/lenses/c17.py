"""C17 -- a probe's stream opens once, completes once at exit, and is silent outside."""

from ..engine1 import Engine
from .c03 import FNS, local_vars, tree_tape
from .common import gen_faults

PROP = "C17"
JUDGE = ("C17.",)
PROGRAMS = ["calltree", "genctx"]
RUNS = {"quick": 3000, "thorough": 150000}

KINDS = ["accum", "map", "count", "sum", "min", "max", "last", "first"]


def gen_generator_history(rng, tier):
    """A probe ends while an instrumented generator it saw is suspended; a stage attached to
    it afterwards must stay silent whatever the generator does later (another probe keeps
    the functions instrumented)."""
    from .common import gen_tape

    def sel(chain, focus):
        return {"levels": [{"fn": f, "caps": [], "sibs": []} for f in chain], "focus": {"var": focus, "as": focus}}

    pc, pf = rng.choice([(["g"], "a"), (["gen", "g"], "a"), (["gen"], "x")])
    tape = lambda: gen_tape(rng, 6, hi=12, odd=0.6)
    ops = [{"op": "mk", "id": "p0", "inv": "C17.stream", "sels": [sel(pc, pf)]},
           {"op": "mk", "id": "p1", "inv": "C17.stream", "sels": [sel(["g"], "a")]},
           {"op": "stage", "id": "p0", "kind": rng.choice(KINDS), "cap": pf},
           {"op": "enter", "id": "p0"},
           {"op": "gen_new", "gen": "g0", "fn": "gen", "nargs": 1},
           {"op": "gen_next", "gen": "g0", "tape": tape(), "faults": {}},
           {"op": "exit", "id": "p0", "exc": rng.random() < 0.3},
           {"op": "stage", "id": "p0", "kind": rng.choice(["accum", "map", "sum", "last"]), "cap": pf},
           {"op": "enter", "id": "p1"}]
    for _ in range(rng.randint(1, 3)):
        ops.append(rng.choice([{"op": "gen_next", "gen": "g0", "tape": tape(), "faults": {}},
                               {"op": "call", "fn": "g", "nargs": 1, "tape": [], "faults": {}}]))
    ops += [{"op": rng.choice(["gen_close", "gen_next", "gen_drop"]), "gen": "g0", "tape": [1, 0], "faults": {}},
            {"op": "call", "fn": "g", "nargs": 1, "tape": [], "faults": {}},
            {"op": "call", "fn": "g", "nargs": 1, "tape": [], "faults": {}},
            {"op": "exit", "id": "p1"},
            {"op": "call", "fn": "g", "nargs": 1, "tape": [], "faults": {}}]
    return {"prog": "genctx", "ops": ops, "relax_inflight": True}


def gen_interrupted_completion(rng):
    """A completion handler of the probe is interrupted by KeyboardInterrupt / SystemExit while
    the probe is being deactivated: the interrupt goes through, and the probe is out all the same --
    nothing caused afterwards reaches any of its stages (another probe keeps the functions
    instrumented)."""
    f = rng.choice(FNS)
    v, w = rng.choice(local_vars(f)), rng.choice(local_vars(f))
    one = lambda var: {"levels": [{"fn": f, "caps": [], "sibs": []}], "focus": {"var": var, "as": var}}
    pc = rng.choice([0.6, 0.8])
    call = lambda: {"op": "call", "fn": rng.choice([f, "S"]), "nargs": 1,
                    "tape": tree_tape(rng, rng.randint(2, 16), {f}, pc, 0.0), "faults": {}}
    ops = [{"op": "mk", "id": "p0", "inv": "C17.stream", "sels": [one(v)]},
           {"op": "mk", "id": "p1", "inv": "C17.stream", "sels": [one(w)]}]
    stages = [{"op": "stage", "id": "p0", "kind": rng.choice(KINDS), "cap": v} for _ in range(rng.choice([0, 1, 2]))]
    stages.insert(rng.randint(0, len(stages)),
                  {"op": "stage", "id": "p0", "kind": rng.choice(["accum", "count", "map"]), "cap": v,
                   "abort_on_complete": rng.choice(["kbd", "exit"])})
    ops += stages
    glob = rng.random() < 0.5
    ops += [{"op": "enter", "id": "p1"}, {"op": "enter", "id": "p0"}] if glob else \
           [{"op": "enter", "id": "p0"}, {"op": "enter", "id": "p1"}]
    ops += [call() for _ in range(rng.randint(1, 2))]
    if not glob:
        ops += [{"op": "exit", "id": "p1"}, {"op": "exit", "id": "p0"}, {"op": "mk", "id": "p2", "inv": "C17.stream", "sels": [one(w)]},
                {"op": "enter", "id": "p2"}]
    else:
        ops += [{"op": "exit", "id": "p0"}]
    if rng.random() < 0.5:
        ops.append({"op": "stage", "id": "p0", "kind": rng.choice(["accum", "map", "sum", "last"]), "cap": v})
    ops += [call(), call(), {"op": "exit", "id": "p2" if not glob else "p1"}, call()]
    return {"prog": "calltree", "ops": ops}


def gen_refused_activation(rng):
    """A probe with stages attached whose activation is refused (its first selector is fine, a later
    one is not): it was never active, so nothing ever reaches its pipeline -- also when other probes
    instrument the same functions afterwards."""
    f = rng.choice(FNS)
    v, w = rng.choice(local_vars(f)), rng.choice(local_vars(f))
    one = lambda fn, var: {"levels": [{"fn": fn, "caps": [], "sibs": []}], "focus": {"var": var, "as": var}}
    pc = rng.choice([0.6, 0.8])
    call = lambda: {"op": "call", "fn": rng.choice([f, "S"]), "nargs": 1,
                    "tape": tree_tape(rng, rng.randint(2, 16), {f}, pc, 0.0), "faults": {}}
    g = rng.choice(FNS)
    bad = one(g, "nosuchvar") if rng.random() < 0.6 else \
        {"levels": [{"fn": g, "caps": [], "sibs": []}, {"fn": "NOTFN", "caps": [], "sibs": []}], "focus": {"var": "#value", "as": "nv"}}
    ops = [{"op": "mk", "id": "bad", "inv": "C17.stream", "sels": [one(f, v), bad], "expect_refusal": True},
           {"op": "mk", "id": "p1", "inv": "C17.stream", "sels": [one(f, w)]}]
    for _ in range(rng.choice([1, 1, 2])):
        ops.append({"op": "stage", "id": "bad", "kind": rng.choice(KINDS), "cap": v})
    first = rng.random() < 0.4
    if first:
        ops += [{"op": "enter", "id": "p1"}, call()]
    ops += [{"op": "enter", "id": "bad"}, call()]
    if not first:
        ops += [{"op": "enter", "id": "p1"}]
    ops += [call(), call(), {"op": "exit", "id": "p1"}, call()]
    return {"prog": "calltree", "ops": ops}


def gen_change_inside_generator(rng, tier, inv="C17.stream"):
    """A probe is activated -- or deactivated -- by code running inside an instrumented generator
    (a subscriber, or the body itself, does it), and the generator then yields several more
    times to the same driver: from the change on the probe is active (resp. over) for the
    driver's own calls and for the calls the generator goes on to make, at every later step."""
    from .common import gen_tape

    one = lambda fn, v: {"levels": [{"fn": fn, "caps": [], "sibs": []}], "focus": {"var": v, "as": v}}
    gfn = rng.choice(["gen", "gen2", "gen5"])
    own = {"gen": "x", "gen2": "y", "gen5": "x"}[gfn]
    tape = lambda: gen_tape(rng, 6, hi=12, odd=0.6)
    ops = [{"op": "mk", "id": "p0", "inv": inv, "sels": [one(gfn, own)]},
           {"op": "mk", "id": "p1", "inv": inv, "sels": [one("g", "a")]},
           {"op": "enter", "id": "p0"},
           {"op": "gen_new", "gen": "g0", "fn": gfn, "nargs": 1}]
    step = lambda: {"op": "gen_next", "gen": "g0", "tape": tape(), "faults": {}}
    callg = lambda: {"op": "call", "fn": "g", "nargs": 1, "tape": [], "faults": {}}
    mode = rng.choice(["enter", "enter", "exit"])
    if mode == "exit":
        ops += [{"op": "enter", "id": "p1"}, callg()]
    if rng.random() < 0.5:
        ops.append(step())
    c = step()
    c["during"] = {"at": rng.randint(0, 3), "ops": [{"op": "enter" if mode == "enter" else "exit", "id": "p1"}]}
    ops.append(c)
    for _ in range(rng.randint(3, 7)):
        ops.append(step() if rng.random() < 0.6 else callg())
    ops += [callg(), {"op": "gen_close", "gen": "g0", "tape": [], "faults": {}}, callg()]
    if mode == "enter":
        ops += [{"op": "exit", "id": "p1"}, callg()]
    ops += [{"op": "exit", "id": "p0"}, callg()]
    return {"prog": "genctx", "ops": ops, "relax_inflight": True}


def gen(rng, tier, quarantine=()):
    if "no-generators" not in quarantine and rng.random() < 0.1:
        return gen_generator_history(rng, tier)
    if "no-generators" not in quarantine and rng.random() < 0.06:
        return gen_change_inside_generator(rng, tier)
    if "no-refused-activation" not in quarantine and rng.random() < 0.08:
        return gen_refused_activation(rng)
    if "no-interrupted-completion" not in quarantine and rng.random() < 0.08:
        return gen_interrupted_completion(rng)
    fns = rng.sample(FNS, rng.choice([1, 2]))
    nprobes = rng.choice([1, 2, 2, 3])
    ops = []
    caps = {}
    for i in range(nprobes):
        f = rng.choice(fns)
        v = rng.choice(local_vars(f))
        caps[f"p{i}"] = v
        ops.append({"op": "mk", "id": f"p{i}", "inv": "C17.stream",
                    "sels": [{"levels": [{"fn": f, "caps": [], "sibs": []}], "focus": {"var": v, "as": v}}]})

    def stage(pid, late=False):
        op = {"op": "stage", "id": pid, "kind": rng.choice(KINDS), "cap": caps[pid]}
        r = rng.random()
        if r < 0.2:
            op["bare"] = True
        elif r < 0.3 and "no-handler-raises" not in quarantine:
            op["raises"] = rng.randint(1, 3)
        return op

    for pid in caps:
        for _ in range(rng.choice([0, 1, 1, 2])):
            ops.append(stage(pid))
    pc = rng.choice([0.6, 0.8])

    def call():
        return {"op": "call", "fn": rng.choice(fns + ["S"]), "nargs": 1,
                "tape": tree_tape(rng, rng.randint(2, 20), set(fns), pc, rng.choice([0.0, 0.4])),
                "faults": gen_faults(rng, 30, rng.choice([0, 0, 1]))}

    if nprobes >= 3 and rng.random() < 0.4:
        # template: two probes end in activation order, a stage is attached to the first one
        # afterwards, and a third probe keeps the function instrumented while it is called again
        ops += [{"op": "enter", "id": "p0"}, {"op": "enter", "id": "p1"}, call(),
                {"op": "exit", "id": "p0"}, {"op": "exit", "id": "p1"},
                {"op": "stage", "id": "p0", "kind": rng.choice(["accum", "map", "sum", "last"]), "cap": caps["p0"]},
                {"op": "enter", "id": "p2"}, call(), call(), {"op": "exit", "id": "p2"}, call()]
        return {"prog": "calltree", "ops": ops}
    if rng.random() < 0.5:
        ops.append(call())  # before activation: must not reach the pipeline
    live = []
    nsteps = rng.randint(3, 10) if tier == "quick" else rng.randint(5, 24)
    pending = list(caps)
    done = []
    for _ in range(nsteps):
        r = rng.random()
        if r < 0.25 and pending:
            pid = pending.pop(0)
            if rng.random() < 0.12:
                # deactivated before it was ever activated: nothing is active, nothing completes --
                # the stream is still to open, once
                ops.append({"op": "exit", "id": pid, "early": True})
            ops.append({"op": "enter", "id": pid})
            live.append(pid)
        elif r < 0.4 and (live or done):
            # part-way through -- or even after the probe is over (then it must never hear anything)
            ops.append(stage(rng.choice(live + done), late=True))
        elif r < 0.55 and live:
            # global probes end in any order
            pid = live.pop(rng.randrange(len(live)) if rng.random() < 0.4 else -1)
            ops.append({"op": "exit", "id": pid, "exc": rng.random() < 0.3})
            done.append(pid)
        elif r < 0.65 and (live or done):
            # one attempt, or several in a row, spelt either way
            who = rng.choice(live + done)
            for _ in range(rng.choice([1, 1, 2, 3])):
                ops.append({"op": "reenter", "id": who, "how": rng.choice(["enter", "activate"])})
        elif r < 0.7 and done:
            ops.append({"op": "exit", "id": rng.choice(done), "again": True})
        elif r < 0.75 and live and "no-exit-hook" not in quarantine:
            ops.append({"op": "exit_hook"})
            done += live
            live = []
        else:
            ops.append(call())
    for pid in reversed(live):
        ops.append({"op": "exit", "id": pid})
    ops.append(call())  # after deactivation: silence
    return {"prog": "calltree", "ops": ops}


def run(scenario):
    return Engine(scenario, judge=JUDGE).run()
