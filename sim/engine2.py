"""Engine E2: thread-schedule simulator (DESIGN.md 3.6).

Real ``threading.Thread``s, created in the run child, each parked on its own
semaphore; exactly one holds the baton.  ``sys.settrace`` on each simulated
thread reports a *yield point* at every ``line`` event in files of the ptera
tree under test, in ``codefind/registry.py`` and in the actor module, and at
every ``opcode`` event inside the functions that touch the state shared between
threads (tooling counters, installed code, module globals written by
``transform``, memo tables).  At a yield point the seeded scheduler either lets
the thread continue or hands the baton to another runnable thread.  The sequence
of hand-overs is recorded; a replay follows the recording.

Module-level locks found in ptera by a type scan are replaced by ``SimLock``:
a blocked acquire makes the thread "not runnable" instead of blocking the
process (there is none in the pinned tree; a repair may add one).
"""

import os
import random
import sys
import threading

from . import msel
from .env import Env, canon, has_absent
from .harness import Sim, outcome_of
from .tracer import Tracer

CRITICAL = {
    "push", "pop", "get", "_apply", "transform_for", "_register", "transform",
    "_tooler", "_untooler", "proceed", "__enter__", "__exit__", "__call__",
    "_enter", "_exit", "autotool", "wrap_functions", "_set_base", "fits_selector",
    "suspend", "resume", "_install_tooling", "_uninstall_tooling",
}


# functions whose line boundaries are yield points (everything that reads or
# writes state shared between threads, or runs on the call path of a probed function)
WATCH = CRITICAL | {
    "interact", "work_on", "register", "exit", "log", "trigger", "intercept", "_emit", "_emit2",
    "_call_with_snapshot", "fork", "build", "accumulator_for", "getcap", "close", "leaves",
    "_gensym", "select", "_select", "_resolve", "verify", "problems", "check_captures",
    "inplace", "tooled", "plus", "add", "activate", "deactivate", "_conform", "_make_rule",
    "_terminate_global_probes", "update_cache_entry", "get_functions", "_get_functions",
    "find_code", "assimilate", "_setcodepaths", "dict_resolver", "resolve", "override",
}


PURE_LOCAL = {
    "generic_visit", "make_interaction", "_interact", "generate_interactions", "delimit", "visit_body",
    "should_instrument", "_ann", "_evaluate", "_wrap_call", "standalone_interaction", "_readline_mock",
    "readline", "_compile", "_standard_info", "_mirror", "_unpack", "_decompose", "_only_names", "<listcomp>",
    "<genexpr>", "<dictcomp>", "<lambda>", "__init__", "_get", "_set", "affix_to", "__str__", "__repr__",
}


class Deadlock(Exception):
    pass


class ThreadEnv:
    """Module global ENV of the actor module: dispatches to the calling
    simulated thread's own Env (values must not depend on the schedule)."""

    def __init__(self):
        object.__setattr__(self, "_envs", {})
        object.__setattr__(self, "_default", None)

    def _cur(self):
        return self._envs.get(threading.get_ident(), self._default)

    def __getattr__(self, name):
        return getattr(self._cur(), name)


class SimLock:
    """Scheduler-aware re-entrant lock."""

    def __init__(self, sched):
        self.sched = sched
        self.owner = None
        self.depth = 0

    def acquire(self, blocking=True, timeout=-1):
        s = self.sched
        me = s.current_tid()
        if me is None:  # outside the simulation (main thread)
            self.owner, self.depth = "main", self.depth + 1
            return True
        while self.owner is not None and self.owner != me:
            s.reach("lock_contended")
            if not blocking:
                return False
            s.block_on(me, self)
        self.owner = me
        self.depth += 1
        s.holding[me] = s.holding.get(me, 0) + 1
        return True

    def release(self):
        self.depth -= 1
        if self.owner in self.sched.holding:
            self.sched.holding[self.owner] -= 1
        if self.depth == 0:
            self.owner = None
            self.sched.wake(self)

    __enter__ = acquire

    def __exit__(self, *a):
        self.release()


class Scheduler:
    def __init__(self, spec, stats):
        """spec: {"strategy": "random"|"pct"|"targeted"|"replay", "seed": int,
        "p": float, "bound": int, "switches": [[step, tid]...] (replay)}"""
        self.spec = spec
        self.rng = random.Random(spec.get("seed", 0))
        self.stats = stats
        self.sems = {}
        self.tids = {}  # ident -> tid
        self.state = {}  # tid -> "ready" | "blocked" | "done"
        self.blocked_on = {}
        self.cur = None
        self.step = 0
        self.switches = []  # recorded [[step, to_tid]]
        # a recorded hand-over is identified by (running thread, code location, how many times that
        # thread has been at that location) rather than by a global step number, so that a replay
        # does not depend on how many other functions the tracer happens to watch
        self.replay = None
        if spec.get("strategy") == "replay":
            self.replay = {(sw[0], tuple(sw[1]), sw[2]): sw[3] for sw in spec.get("switches", [])}
        self.locvis = {}
        self.bound = spec.get("bound", 3)
        self.npre = 0
        self.deadlock = False
        self.pairs = set()
        self.last_loc = {}
        self.done_evt = threading.Event()
        self.target = spec.get("target")  # [location key, visit]
        self.visits = {}
        self.locs_seen = {}
        self.prio = {}
        self.change_points = set(spec.get("change_points", []))
        self.holding = {}  # tid -> number of simulated locks held
        self.inlock_seen = 0

    def reach(self, k, n=1):
        self.stats[k] = self.stats.get(k, 0) + n

    def current_tid(self):
        return self.tids.get(threading.get_ident())

    # -- baton ----------------------------------------------------------------
    def runnable(self, exclude=None):
        return [t for t, st in self.state.items() if st == "ready" and t != exclude]

    def hand_over(self, me, to):
        self.cur = to
        self.sems[to].release()
        if me is not None and self.state.get(me) != "done":
            self.sems[me].acquire()

    def yield_point(self, loc):
        me = self.current_tid()
        if me is None or self.cur != me:
            return
        self.step += 1
        self.locs_seen[loc] = self.locs_seen.get(loc, 0) + 1
        self.last_loc[me] = loc
        vis = self.locvis[(me, loc)] = self.locvis.get((me, loc), 0) + 1
        others = self.runnable(exclude=me)
        if not others:
            return
        to = None
        if self.replay is not None:
            to = self.replay.get((me, loc, vis))
            if to is not None and self.state.get(to) != "ready":
                to = None
        elif self.npre < self.bound:
            st = self.spec.get("strategy", "random")
            if st == "random":
                if self.rng.random() < self.spec.get("p", 0.02):
                    to = self.rng.choice(sorted(others))
            elif st == "step":
                # pre-empt at given global yield-point numbers (drawn uniformly over the run)
                if self.step in self.change_points:
                    to = self.rng.choice(sorted(others))
            elif st == "targeted":
                # pre-empt at the nth yield point inside a named critical function
                tgts = self.spec.get("targets", [])
                if self.npre < len(tgts):
                    tgt = tgts[self.npre]
                    if loc[0] == tgt["fn"]:
                        key = (self.npre, tgt["fn"])
                        v = self.visits.get(key, 0) + 1
                        self.visits[key] = v
                        if v == tgt["nth"]:
                            to = self.rng.choice(sorted(others))
                elif self.rng.random() < self.spec.get("p", 0.0):
                    to = self.rng.choice(sorted(others))
            elif st == "inlock":
                # pre-empt at the nth yield point reached *while holding a lock*: whatever the code
                # inside the critical sections looks like, this is where lock-free paths of the
                # other threads meet half-done work
                if self.holding.get(me, 0) > 0:
                    self.inlock_seen += 1
                    nths = self.spec.get("nths", [])
                    if self.npre < len(nths) and self.inlock_seen == nths[self.npre]:
                        self.inlock_seen = 0
                        to = self.rng.choice(sorted(others))
            elif st == "pct":
                if self.step in self.change_points:
                    # demote the running thread below everybody else
                    self.prio[me] = min(self.prio.values()) - 1
                best = max(self.runnable(), key=lambda t: self.prio.get(t, 0))
                if best != me:
                    to = best
        if to is not None and to != me:
            self.npre += 1
            self.switches.append([me, list(loc), vis, to])
            prev = self.last_loc.get(to)
            if prev is not None:
                self.pairs.add((loc[:2], prev[:2]))
            self.hand_over(me, to)

    def block_on(self, me, lock):
        self.state[me] = "blocked"
        self.blocked_on[me] = lock
        others = self.runnable()
        if not others:
            self.deadlock = True
            self.reach("deadlock")
            raise Deadlock()
        to = sorted(others)[0] if self.replay is not None else self.rng.choice(sorted(others))
        self.hand_over(me, to)

    def wake(self, lock):
        for t, l in list(self.blocked_on.items()):
            if l is lock:
                del self.blocked_on[t]
                self.state[t] = "ready"

    def finish(self, me):
        self.state[me] = "done"
        others = self.runnable()
        if others:
            to = max(others, key=lambda t: self.prio.get(t, 0)) if self.spec.get("strategy") == "pct" else sorted(others)[0]
            self.cur = to
            self.sems[to].release()
        else:
            if any(st == "blocked" for st in self.state.values()):
                self.deadlock = True
            self.done_evt.set()


def make_tracer(sched, interesting_files):
    def local(frame, event, arg):
        if event == "line":
            co = frame.f_code
            sched.yield_point((co.co_name, frame.f_lineno, "l"))
        elif event == "opcode":
            co = frame.f_code
            sched.yield_point((co.co_name, frame.f_lineno, frame.f_lasti))
        return local

    def glob(frame, event, arg):
        if event != "call":
            return None
        co = frame.f_code
        fname = co.co_filename
        if fname == interesting_files[2]:
            return local  # the actor module: every line
        if fname in interesting_files or fname.startswith(interesting_files[0]):
            name = co.co_name
            if name in CRITICAL:
                frame.f_trace_opcodes = True
                return local
            if name in WATCH:
                return local
            # anything else in ptera's runtime modules is traced by line too (robust against
            # renamed internals); what is skipped is pure, thread-local work: parsing selectors
            # and rewriting ASTs
            base = os.path.basename(fname)
            if base in ("opparse.py", "tags.py", "tools.py", "utils.py", "version.py"):
                return None
            if name.startswith("visit_") or name in PURE_LOCAL:
                return None
            if base == "selector.py" and name not in ("__call__", "check_captures", "dict_resolver", "resolve"):
                return None
            return local
        return None

    return glob


def install_simlocks(sched):
    """Replace module-level locks in ptera.* by SimLocks (type scan)."""
    n = 0
    lock_types = (type(threading.Lock()), type(threading.RLock()))
    for name, mod in list(sys.modules.items()):
        if not (name == "ptera" or name.startswith("ptera.")) or mod is None:
            continue
        for attr, val in list(vars(mod).items()):
            if isinstance(val, lock_types):
                setattr(mod, attr, SimLock(sched))
                n += 1
    return n


def _top_locs(seen):
    by = {}
    for k, v in seen.items():
        by[k[0]] = by.get(k[0], 0) + v
    return dict(sorted(by.items(), key=lambda t: -t[1])[:12])


def run_scenario(sc):
    """sc: {"prog", "threads": [{"probe": mk-spec | None, "calls": [call ops]}...],
    "sched": {...}}"""
    import ptera

    from . import catalogue

    program = catalogue.get(sc["prog"])
    sim = Sim(program, sc["prog"], variants=("trc", "sys"))
    stats = {}
    viol = []
    herr = []
    nthreads = len(sc["threads"])

    def sel_env():
        env = dict(sim.v["sys"].mod.__dict__)
        env.update(sim.v["sys"].inst)
        return env

    for q in sc.get("setup_tool", []):
        f = sim.raw_function(sim.v["sys"], q)
        ptera.tooled.inplace(f)
        sim.orig_code[q] = f.__code__

    # ---- sequential model of each thread's own script (M-sel over the traced twin)
    def rounds_of(th):
        # a thread runs one or more rounds: activate own probe, call, deactivate
        return th.get("rounds") or [{"probe": th.get("probe"), "calls": th.get("calls", [])}]

    expected = []
    for t, th in enumerate(sc["threads"]):
        tr = Tracer()
        sim.v["trc"].mod.T = tr
        outs = []
        events = []
        n = 0
        for rnd in rounds_of(th):
            lo = len(tr.events)
            for op in rnd["calls"]:
                v = sim.v["trc"]
                env = v.env.reset(op.get("tape", []), op.get("faults", {}), base=100000 * (t + 1) + 1000 * n)
                n += 1
                v.mod.ENV = env
                out, _ = outcome_of(lambda: sim.call_thunk(op)(v, env))
                outs.append(out)
            evs = []
            if rnd.get("probe"):
                for sel in rnd["probe"]["sels"]:
                    evs += msel.immediate(sel, tr, lo, len(tr.events))
                evs.sort(key=lambda e: e[0])
            events.append([d for _, d in evs])
        expected.append({"outs": outs, "events": events})

    # ---- the real thing under the scheduler
    sched = Scheduler(sc["sched"], stats)
    nlocks = install_simlocks(sched)
    if nlocks:
        stats["simlocks_installed"] = nlocks
    sim.between = lambda: sched.yield_point(("gen_created", 0, 0))
    tenv = ThreadEnv()
    sysv = sim.v["sys"]
    sysv.mod.ENV = tenv
    for th in sc["threads"]:
        for rnd in rounds_of(th):
            for sl in (rnd.get("probe") or {}).get("sels", []):
                for lv in sl["levels"]:
                    if lv.get("ref"):
                        # the thread selects through the absolute reference of that very function:
                        # the reference is resolved (by the thread) while the others swap its code
                        lv["recv_path"] = ptera.refstring(sim.raw_function(sysv, lv["fn"]))
                        stats["probe_by_reference"] = stats.get("probe_by_reference", 0) + 1
    ptera_dir = os.path.dirname(os.path.abspath(ptera.__file__)) + os.sep
    import codefind.registry as reg

    files = (ptera_dir, reg.__file__, sysv.mod.__file__)
    tracer = make_tracer(sched, files)
    results = [{"outs": [], "events": [], "error": None} for _ in range(nthreads)]
    envfaults = {}

    def body(t):
        th = sc["threads"][t]
        res = results[t]
        n = 0
        try:
            for rnd in rounds_of(th):
                probe = None
                got = []
                res["events"].append(got)
                if rnd.get("probe"):
                    spec = rnd["probe"]
                    strs = [msel.render(s) for s in spec["sels"]]
                    if spec.get("kind") == "overlay":
                        from ptera.selector import select

                        probe = ptera.Overlay()
                        for s in strs:
                            probe.register(select(s, env=sel_env()), lambda args, got=got: got.append(
                                {k: canon(v) for k, v in args.items()}))
                    else:
                        probe = ptera.probing(*strs, env=sel_env())
                        probe.subscribe(lambda data, got=got: got.append({k: canon(v) for k, v in data.items()}))
                    try:
                        probe.__enter__()
                    except Exception:
                        if not spec.get("expect_refusal"):
                            raise
                        # a refused activation: this thread carries on without a probe, and the
                        # others must not notice anything
                        stats["activation_refused"] = stats.get("activation_refused", 0) + 1
                        probe = None
                    else:
                        if spec.get("expect_refusal"):
                            viol.append(["C08.refused_activation", t, {"accepted": strs}])
                for op in rnd["calls"]:
                    env = tenv._envs[threading.get_ident()]
                    env.reset(op.get("tape", []), op.get("faults", {}), base=100000 * (t + 1) + 1000 * n)
                    n += 1
                    out, _ = outcome_of(lambda: sim.call_thunk(op)(sysv, env))
                    res["outs"].append(out)
                    for _k, kind, _f in env.fired:
                        envfaults[kind] = envfaults.get(kind, 0) + 1
                    if has_absent(out) or any(has_absent(e) for e in env.log):
                        viol.append(["C16.no_absent", t, {"out": out}])
                if probe is not None:
                    probe.__exit__(None, None, None)
        except Deadlock:
            res["error"] = ["deadlock"]
        except BaseException as e:  # noqa
            import traceback

            res["tb"] = traceback.format_exc()[-1500:]
            e.__traceback__ = None
            res["error"] = canon(e)

    def runner(t):
        ident = threading.get_ident()
        sched.tids[ident] = t
        tenv._envs[ident] = Env()
        sched.sems[t].acquire()  # wait for the baton
        sys.settrace(tracer)
        try:
            body(t)
        finally:
            sys.settrace(None)
            sched.finish(t)

    threads = []
    for t in range(nthreads):
        sched.sems[t] = threading.Semaphore(0)
        sched.state[t] = "ready"
        sched.prio[t] = sc["sched"].get("prio", list(range(nthreads)))[t] if sc["sched"].get("strategy") == "pct" else 0
        th = threading.Thread(target=runner, args=(t,), daemon=True)
        threads.append(th)
    for th in threads:
        th.start()
    first = sc["sched"].get("first", 0) % nthreads
    if sc["sched"].get("strategy") == "pct":
        first = max(range(nthreads), key=lambda t: sched.prio[t])
    sched.cur = first
    sched.sems[first].release()
    finished = sched.done_evt.wait(timeout=40)
    for th in threads:
        th.join(timeout=1)
    if not finished:
        if sched.deadlock or any(st == "blocked" for st in sched.state.values()):
            viol.append(["C08.no_deadlock", -1, {"states": {str(k): v for k, v in sched.state.items()}}])
        else:
            herr.append(["scheduler-stuck", -1, {"states": {str(k): v for k, v in sched.state.items()}}])
    elif sched.deadlock:
        viol.append(["C08.no_deadlock", -1, {"states": {str(k): v for k, v in sched.state.items()}}])

    # ---- verdicts
    for t in range(nthreads):
        res, exp = results[t], expected[t]
        if res["error"] is not None and res["error"] != ["deadlock"]:
            viol.append(["C08.no_exception", t, {"error": res["error"], "tb": res.get("tb"), "switches": sched.switches}])
            continue
        if res["error"] == ["deadlock"]:
            continue
        if res["outs"] != exp["outs"]:
            viol.append(["C08.thread_result", t, {"expected": exp["outs"], "got": res["outs"]}])
        key = lambda d: repr(sorted(d.items(), key=repr))
        got_r = res["events"] + [[]] * (len(exp["events"]) - len(res["events"]))
        for ri, (g, e) in enumerate(zip(got_r, exp["events"])):
            if [key(d) for d in g] != [key(d) for d in e]:
                rnd = rounds_of(sc["threads"][t])[ri]
                viol.append(["C08.thread_stream", t, {
                    "round": ri, "sel": [msel.render(x) for x in rnd["probe"]["sels"]] if rnd.get("probe") else None,
                    "expected": e, "got": g}])
                break
    if finished and not sched.deadlock:
        cs = sim.code_state()
        for q, d in cs.items():
            if not d["original"] or d["count"] not in (None, 0) or d["caps"]:
                viol.append(["C08.quiescent", -1, {"fn": q, "state": d}])
                break
        import ptera.probe as pp

        from .world import global_probe_list

        if global_probe_list():
            viol.append(["C08.quiescent", -1, {"global_probes": len(global_probe_list())}])
        # module globals: only ptera's own prefixed names may have been added
        extra = [k for k in vars(sysv.mod) if isinstance(k, str) and k.startswith("#")]
        if extra:
            viol.append(["C08.quiescent", -1, {"leaked module globals": extra}])
    stats["yield_points"] = sched.step
    stats["preemptions"] = sched.npre
    sig = sorted(f"{a}|{b}" for a, b in sched.pairs)
    from .world import digest

    return {
        "oplog": digest([[r["outs"], r["events"]] for r in results] + [sched.switches]),
        "viol": viol,
        "foreign": [],
        "herr": herr,
        "stats": {"faults_fired": dict(envfaults, preemption=sched.npre), "reach": stats, "kinds": {}},
        "sig": sig,
        "events": sum(len(g) for r in results for g in r["events"]),
        "steps": sched.step,
        "ops": sum(len(rnd["calls"]) for th in sc["threads"] for rnd in rounds_of(th)),
        "switches": sched.switches,
        "locs": _top_locs(sched.locs_seen),
    }
