"""M-sel: selector semantics written from the property statements
(C02, C03, C07, C12), not from ptera's HandlerCollection/Accumulator code.

Selector spec (JSON):

    {"levels": [LEVEL, ...],            # the chain  f > g > h
     "focus": {"var", "as"} | None,     # bound in the LAST level
     "mode": "immediate" | "total"}
    LEVEL = {"fn": qualname, "recv": instance name | None,
             "caps": [CAP...], "sibs": [SIB...]}
    SIB   = {"fn", "caps": [CAP...], "sibs": [SIB...]}   # f(a, g(b, h(c))): g and h are SIBs
    CAP   = {"var", "as", "cond": None | ["eq", v] | [pred, args...]}

Trace: the list of Tracer events (sim/tracer.py).
"""

import itertools

META_OF_KIND = {
    "enter": "#enter",
    "exit": "#exit",
    "value": "#value",
    "error": "#error",
    "yield": "#yield",
    "receive": "#receive",
}


# ---------------------------------------------------------------------------
# rendering to ptera's selector language


def _cond_src(c):
    if c is None:
        return ""
    if c[0] == "eq":
        return f"={c[1]}"
    args = ", ".join(
        f"{k}={v}" if k else str(v)
        for k, v in c[1:]
    )
    return f"~{c[0]}({args})"


def cap_src(cap, focus=False, dbl=False):
    s = cap["var"]
    if cap.get("as") and cap["as"] != cap["var"]:
        s += f" as {cap['as']}"
    if cap.get("tag"):
        s += f":{cap['tag']}"
    s += _cond_src(cap.get("cond"))
    if dbl:
        s = "!!" + s
    elif focus:
        s = "!" + s
    return s


def walk_sibs(node):
    """Every sibling node below a level (or below a sibling), depth first."""
    for sb in node.get("sibs", []):
        yield sb
        yield from walk_sibs(sb)


def sib_src(sb):
    parts = [cap_src(c) for c in sb.get("caps", [])]
    parts += [sib_src(x) for x in sb.get("sibs", [])]
    return f"{sb['fn']}({', '.join(parts)})"


def sib_actsets(node, parents, acts):
    """[(sibling node, set of activation ids it stands for)] for every sibling below
    ``node``: activations of the sibling's function called (directly or not) from an
    activation its parent node stands for."""
    out = []
    for sb in node.get("sibs", []):
        mine = {a.id for a in acts.values() if a.fn == sb["fn"] and (a.anc & parents)}
        out.append((sb, mine))
        out.extend(sib_actsets(sb, mine, acts))
    return out


def render(sel, style=0):
    """ptera selector string.  style 0: nested calls with '!'; style 1: the
    '>' notation where possible."""
    levels = sel["levels"]
    focus = sel.get("focus")

    def level_name(lv):
        return lv.get("recv_path") or lv["fn"]

    def render_level(j):
        lv = levels[j]
        parts = [cap_src(c) for c in lv.get("caps", [])]
        for sb in lv.get("sibs", []):
            parts.append(sib_src(sb))
        if j == len(levels) - 1:
            if focus is not None:
                parts.append(cap_src(focus, focus=True))
            for extra in sel.get("extra_focus", []):
                parts.append(cap_src(extra, dbl=True))
        else:
            parts.append(render_level(j + 1))
        return f"{level_name(lv)}({', '.join(parts)})"

    if style == 1 and focus is not None and not sel.get("extra_focus"):
        segs = []
        for j, lv in enumerate(levels):
            parts = [cap_src(c) for c in lv.get("caps", [])]
            for sb in lv.get("sibs", []):
                parts.append(sib_src(sb))
            segs.append(
                level_name(lv) + (f"({', '.join(parts)})" if parts else "")
            )
        segs.append(cap_src(focus))
        return " > ".join(segs)
    return render_level(0)


def capture_names(sel):
    out = []
    for lv in sel["levels"]:
        for c in lv.get("caps", []):
            out.append(c.get("as") or c["var"])
        for sb in walk_sibs(lv):
            for c in sb["caps"]:
                out.append(c.get("as") or c["var"])
    if sel.get("focus"):
        out.append(sel["focus"].get("as") or sel["focus"]["var"])
    return out


# ---------------------------------------------------------------------------
# reference predicates (C12), arithmetic, written from the statement


def pred_holds(c, v, state=None):
    """Does value v satisfy condition c?  ``state`` is a mutable dict for the
    stateful throttle."""
    kind = c[0]
    if kind == "eq":
        return v == c[1]
    kw = {k: x for k, x in c[1:] if k}
    pos = [x for k, x in c[1:] if not k]
    if kind == "every":
        n = kw.get("modulo", pos[0] if pos else None)
        start = kw.get("start", pos[1] if len(pos) > 1 else 0)
        end = kw.get("end", pos[2] if len(pos) > 2 else None)
        if v < start:
            return False
        if end is not None and v >= end:
            return False
        if n is None:
            return True
        return (v - start) % n == 0
    if kind == "between":
        a, b = pos[0], pos[1]
        return a <= v < b
    if kind == "lt":
        return v < pos[0]
    if kind == "gt":
        return v > pos[0]
    if kind == "lte":
        return v <= pos[0]
    if kind == "gte":
        return v >= pos[0]
    raise ValueError(kind)


# ---------------------------------------------------------------------------


class TraceIndex:
    def __init__(self, trace):
        self.trace = trace
        self.fn_of = {}
        self.parent_anc = {}

    def feed_acts(self, acts):
        for a in acts.values():
            self.fn_of[a.id] = a.fn
            self.parent_anc[a.id] = a.anc


# what a superseded return value (sim/tracer.py) stands for: "void" -- no event is due (the
# statement: one return-value event per normal completion, with the value actually returned);
# "kept" -- an event, as for any executed return statement (the engine then makes it optional)
SUPERSEDED = "kept"


def event_vars(ev):
    """(varname, value) pairs a trace event stands for, as ptera names them."""
    k = ev["k"]
    if k == "value" and ev.get("superseded") and SUPERSEDED == "void":
        return []
    if k == "bind":
        return [(ev["var"], ev["val"])]
    if k in ("loop", "endloop"):
        return [(f"#{k}_{n}", True) for n in ev["var"]]
    if k in ("enter", "exit"):
        return [(META_OF_KIND[k], True)]
    if k in META_OF_KIND:
        return [(META_OF_KIND[k], ev["val"])]
    return []


def _embeddings(level_fns, stack_fns):
    """All strictly increasing index tuples i1<...<im with im == last and
    stack_fns[i_j] == level_fns[j]."""
    m = len(level_fns)
    n = len(stack_fns)
    if n == 0 or stack_fns[-1] != level_fns[-1]:
        return []
    if m == 1:
        return [(n - 1,)]
    cands = [
        [i for i in range(n - 1) if stack_fns[i] == level_fns[j]]
        for j in range(m - 1)
    ]
    out = []
    for combo in itertools.product(*cands):
        if all(combo[i] < combo[i + 1] for i in range(len(combo) - 1)):
            out.append(combo + (n - 1,))
    return out


def immediate(sel, tracer, lo=0, hi=None, recv_ok=None):
    """Expected events of an immediate selector for trace events lo <= i < hi.

    Returns a list of (event index, {capture: value}) in trace order; several
    entries with the same index are the embeddings of one binding (their
    relative order is unspecified).
    recv_ok(level_index, act_id) -> bool : receiver constraint (C13)."""
    trace = tracer.events
    hi = len(trace) if hi is None else hi
    levels = sel["levels"]
    level_fns = [lv["fn"] for lv in levels]
    focus = sel["focus"]
    fas = focus.get("as") or focus["var"]
    latest = {}  # act -> {var: val}
    binds = []  # (i, act, fn, var, val)
    acts = tracer.acts
    out = []
    for ev in trace[:hi]:
        for var, val in event_vars(ev):
            if (
                ev["i"] >= lo
                and var == focus["var"]
                and ev["fn"] == level_fns[-1]
            ):
                stack = ev["stack"]
                stack_fns = [acts[a].fn for a in stack]
                for emb in _embeddings(level_fns, stack_fns):
                    d = {fas: val}
                    ok = True
                    for j, idx in enumerate(emb):
                        A = stack[idx]
                        if recv_ok is not None and not recv_ok(j, A):
                            ok = False
                            break
                        lv = levels[j]
                        for cap in lv.get("caps", []):
                            cur = latest.get(A, {})
                            if cap["var"] in cur:
                                d[cap.get("as") or cap["var"]] = cur[cap["var"]]
                        for sb, mine in sib_actsets(lv, {A}, acts):
                            for cap in sb["caps"]:
                                hits = [
                                    bval
                                    for (bi, bact, bfn, bvar, bval) in binds
                                    if bact in mine and bvar == cap["var"]
                                ]
                                if hits:
                                    d[cap.get("as") or cap["var"]] = hits[-1]
                    if not ok:
                        continue
                    if _conds_hold(sel, d):
                        out.append((ev["i"], d))
            latest.setdefault(ev["act"], {})[var] = val
            binds.append((ev["i"], ev["act"], ev["fn"], var, val))
    return out


def all_caps(sel):
    caps = []
    for lv in sel["levels"]:
        caps += lv.get("caps", [])
        for sb in walk_sibs(lv):
            caps += sb["caps"]
    if sel.get("focus"):
        caps.append(sel["focus"])
    return caps


def _conds_hold(sel, d):
    """Every constrained capture that is present satisfies its condition."""
    for cap in all_caps(sel):
        c = cap.get("cond")
        if c is None:
            continue
        name = cap.get("as") or cap["var"]
        if name in d:
            vals = d[name] if isinstance(d[name], list) and sel.get("mode") == "total" else [d[name]]
            for v in vals:
                if not isinstance(v, int) or isinstance(v, bool):
                    return False
                if not pred_holds(c, v):
                    return False
    return True


def total(sel, tracer, lo=0, hi=None):
    """Expected records of a focus-free selector in total mode.

    One record per ended activation R of the outermost function whose exit
    event index is in [lo, hi): {capture: [values in order]}, present iff
    every capture name got at least one value.  Returns [(exit index, record)].
    """
    trace = tracer.events
    hi = len(trace) if hi is None else hi
    acts = tracer.acts
    levels = sel["levels"]
    # node tree: level j has caps, sibs (leaf nodes) and level j+1 as a child
    out = []
    binds = []
    for ev in trace[:hi]:
        for var, val in event_vars(ev):
            binds.append((ev["i"], ev["act"], ev["fn"], var, val))
    exits = [
        ev for ev in trace[:hi] if ev["k"] == "exit" and ev["fn"] == levels[0]["fn"]
    ]
    for xe in exits:
        if xe["i"] < lo:
            continue
        R = xe["act"]
        rec = {}
        limit = xe["i"]

        def matches(fn, parents):
            """activations of fn that are descendants of some act in parents"""
            res = []
            for a in acts.values():
                if a.fn == fn and (a.anc & parents):
                    res.append(a.id)
            return set(res)

        def collect(node_caps, actset):
            for cap in node_caps:
                vals = [
                    bval
                    for (bi, bact, bfn, bvar, bval) in binds
                    if bact in actset and bvar == cap["var"] and bi <= limit
                ]
                rec.setdefault(cap.get("as") or cap["var"], []).extend(vals)

        cur = {R}
        for j, lv in enumerate(levels):
            if j > 0:
                cur = matches(lv["fn"], cur)
            collect(lv.get("caps", []), cur)
            for sb, mine in sib_actsets(lv, cur, acts):
                collect(sb["caps"], mine)
        names = set(capture_names(sel))
        if all(rec.get(n) for n in names) and _conds_hold(
            dict(sel, mode="total"), rec
        ):
            out.append((xe["i"], rec))
    return out


def total_focus(sel, tracer, lo=0, hi=None):
    """A *focused* selector forced to total mode: one record per binding of the
    focus variable (per way the chain matches), published when the outermost
    matched call ends, each sharing the complete values of the outer captures.
    Returns [(exit index of the outermost call, record)] in publication order."""
    trace = tracer.events
    hi = len(trace) if hi is None else hi
    acts = tracer.acts
    levels = sel["levels"]
    level_fns = [lv["fn"] for lv in levels]
    focus = sel["focus"]
    fas = focus.get("as") or focus["var"]
    binds = []
    for ev in trace[:hi]:
        for var, val in event_vars(ev):
            binds.append((ev["i"], ev["act"], ev["fn"], var, val, ev["stack"]))
    exits = {ev["act"]: ev["i"] for ev in trace[:hi] if ev["k"] == "exit"}
    out = []
    for (bi, bact, bfn, bvar, bval, stack) in binds:
        if bfn != level_fns[-1] or bvar != focus["var"]:
            continue
        stack_fns = [acts[a].fn for a in stack]
        for emb in _embeddings(level_fns, stack_fns):
            R = stack[emb[0]]
            xi = exits.get(R)
            if xi is None or xi < lo or xi >= hi:
                continue
            rec = {fas: [bval]}
            for j, idx in enumerate(emb):
                A = stack[idx]
                lv = levels[j]
                for cap in lv.get("caps", []):
                    vals = [v for (i2, a2, f2, v2, v, _s) in binds if a2 == A and v2 == cap["var"] and i2 <= xi]
                    rec.setdefault(cap.get("as") or cap["var"], []).extend(vals)
                for sb, mine in sib_actsets(lv, {A}, acts):
                    for cap in sb["caps"]:
                        vals = [v for (i2, a2, f2, v2, v, _s) in binds
                                if a2 in mine and v2 == cap["var"] and i2 <= xi]
                        rec.setdefault(cap.get("as") or cap["var"], []).extend(vals)
            names = set(capture_names(sel))
            if all(rec.get(n) for n in names):
                out.append((xi, bi, rec))
    out.sort(key=lambda t: (t[0], t[1]))
    return [(xi, rec) for xi, _bi, rec in out]


def wrapper(sel, tracer, lo=0, hi=None):
    """The wrapper form f(!#enter, #error, !!#exit): a 'begin' event when an
    activation of f starts and an 'end' event when it ends -- however it ends --
    carrying the exception if it ended by raising."""
    trace = tracer.events
    hi = len(trace) if hi is None else hi
    fn = sel["levels"][-1]["fn"]
    errs = {}
    out = []
    for ev in trace[:hi]:
        if ev["fn"] != fn:
            continue
        if ev["k"] == "error":
            errs[ev["act"]] = ev["val"]
        if ev["i"] < lo:
            continue
        if ev["k"] == "enter":
            out.append((ev["i"], {"#enter": True, "$wrap": {"name": "#enter", "step": "begin"}}))
        elif ev["k"] == "exit":
            d = {"#enter": True, "#exit": True, "$wrap": {"name": "#enter", "step": "end"}}
            if ev["act"] in errs:
                d["#error"] = errs[ev["act"]]
            out.append((ev["i"], d))
    return out
