"""Deterministic simulation harness for breuleux/ptera (see /verif/DESIGN.md)."""
