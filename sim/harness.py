"""Engine E1 plumbing shared by the lenses: twin modules, per-operation
environments, probe bookkeeping, lifecycle introspection (DESIGN.md 3.4/3.5).

A ``Sim`` lives in one forked child and interprets one scenario.
"""

import os
import sys
import types

from . import ir, msel
from .env import Env, canon, has_absent
from .tracer import Tracer

VARIANTS = ("ref", "trc", "sys")
_COMPILED = {}  # (name, variant) -> (filename, code); filled in the parent


def forget_private(prog_name):
    """Remove the files of a generated program prepared by this process."""
    for variant in VARIANTS:
        ent = _COMPILED.get((prog_name, variant))
        if ent and ent[0].endswith(f"_{os.getpid()}.py"):
            try:
                os.unlink(ent[0])
            except OSError:
                pass


class HarnessError(Exception):
    """The simulator itself is wrong (model != reference twin, etc.)."""


def scratch_dir():
    d = os.environ.get("PTERA_SIM_SCRATCH")
    if not d:
        raise HarnessError("no scratch dir")
    return d


def module_name(prog_name, variant):
    return f"act_{prog_name}_{variant}"


def prepare_program(program, prog_name, private=False):
    """Emit and compile the three twins (no exec).  Catalogue programs are prepared once in
    the parent; a generated program is prepared in the run child, under file names of its
    own (private=True): the same scenario may be running in several children at once
    (replay runs it twice, the minimiser runs many variants) and each removes its files."""
    d = scratch_dir()
    for variant in VARIANTS:
        key = (prog_name, variant)
        if key in _COMPILED:
            continue
        src = ir.emit_module(program, traced=(variant == "trc"))
        stem = module_name(prog_name, variant) + (f"_{os.getpid()}" if private else "")
        fname = os.path.join(d, stem + ".py")
        with open(fname, "w") as f:
            f.write(src)
        _COMPILED[key] = (fname, compile(src, fname, "exec"))


def load_module(prog_name, variant, program=None):
    key = (prog_name, variant)
    if key not in _COMPILED:
        if program is None:
            raise HarnessError(f"program {prog_name} not prepared")
        prepare_program(program, prog_name, private=True)
    fname, code = _COMPILED[key]
    name = module_name(prog_name, variant)
    mod = types.ModuleType(name)
    mod.__file__ = fname
    sys.modules[name] = mod
    exec(code, mod.__dict__)
    return mod


# name errors raised by ptera, with what they exposed when they were raised: the engine asks them
# again later, when the probes of that moment are gone (C16: the error *exposes* annotation and
# provenance -- also to a handler outside the with-block)
NAME_ERRORS = []


def outcome_of(thunk):
    try:
        v = thunk()
    except BaseException as e:  # noqa
        # drop the traceback: it would keep frames (and generators they hold)
        # alive in a cycle until the next collection, in this twin only
        e.__traceback__ = None
        c = canon(e)
        if type(e).__name__ == "PteraNameError" and len(NAME_ERRORS) < 8:
            NAME_ERRORS.append((e, c))
        e = None
        return ["exc", c], None
    return ["ret", canon(v)], v


class Variant:
    def __init__(self, name):
        self.name = name
        self.env = Env()
        self.mod = None
        self.inst = {}
        self.gens = {}
        self.tooled = {}
        self.objs = {}
        self.cycles = {}
        self.limbo = []


class Sim:
    def __init__(self, program, prog_name, variants=VARIANTS):
        import ptera

        self.ptera = ptera
        self.program = program
        self.prog_name = prog_name
        self.tr = Tracer()
        self.v = {}
        self.funcs = ir.all_functions(program)
        self.fnir = dict(self.funcs)
        for vn in variants:
            v = Variant(vn)
            v.mod = load_module(prog_name, vn, program)
            if vn == "trc":
                v.mod.T = self.tr
            for inst in program.get("instances", []):
                cls = self.lookup(v, inst["cls"])
                v.inst[inst["name"]] = cls(inst["name"], inst.get("key", 0))
                # (also a global of the twin's module: actors may call methods on a named instance)
                setattr(v.mod, "I_" + inst["name"], v.inst[inst["name"]])
            self.v[vn] = v
        sysv = self.v.get("sys")
        self.orig_code = {}
        if sysv:
            for q, _ in self.funcs:
                f = self.raw_function(sysv, q)
                self.orig_code[q] = f.__code__
        self.opn = 0
        self.probes = {}
        self.stats = {"faults_fired": {}, "reach": {}, "kinds": {}}
        self.between = None
        self.on_step = {}  # variant name -> callable(k): run at the k-th interaction of the operation
        self.absent_seen = []

    # -- lookups --------------------------------------------------------------
    def lookup(self, v, path):
        cur = v.mod
        parts = path.split(".")
        if parts[0] in v.inst:
            cur = v.inst[parts[0]]
            parts = parts[1:]
        for p in parts:
            cur = getattr(cur, p)
        return cur

    def raw_function(self, v, qual):
        """The function object created by that def (through decorators /
        staticmethod / property)."""
        cur = v.mod
        parts = qual.split(".")
        for p in parts[:-1]:
            cur = getattr(cur, p)
        if isinstance(cur, type):
            f = cur.__dict__[parts[-1]]
        else:
            f = getattr(cur, parts[-1])
        if isinstance(f, (staticmethod, classmethod)):
            f = f.__func__
        if isinstance(f, property):
            f = f.fget
        while hasattr(f, "__wrapped__"):
            f = f.__wrapped__
        return f

    def reach(self, name, n=1):
        self.stats["reach"][name] = self.stats["reach"].get(name, 0) + n

    # -- running code under one variant -------------------------------------
    def env_for(self, v, tape, faults, base, box=None):
        env = v.env.reset(tape, faults, base=base, box=box)
        v.mod.ENV = env
        return env

    def run(self, vn, thunk, tape=(), faults=None, base=None, box=None):
        """thunk(variant, env) under a fresh Env; returns dict(out, log, raw)."""
        v = self.v[vn]
        if base is None:
            base = 1000 * (self.opn + 1)
        env = self.env_for(v, tape, faults, base, box)
        env.on_step = self.on_step.get(vn) if self.on_step else None
        out, raw = outcome_of(lambda: thunk(v, env))
        env.on_step = None
        return {"out": out, "raw": raw, "env": env}

    def finish(self, vn, r):
        """Close the operation for one variant (after the global collect step)."""
        env = r["env"]
        r["log"] = list(env.log)
        # final state of the module globals the programs may write (C01)
        g = {k: canon(self.v[vn].mod.__dict__.get(k)) for k in ("G0", "G1")}
        r["log"].append(["globals", "", g])
        for k, kind, f in env.fired:
            if vn == "sys":
                d = self.stats["faults_fired"]
                d[kind] = d.get(kind, 0) + 1
        if vn == "sys":
            for kind, n in env.kinds.items():
                self.stats["kinds"][kind] = self.stats["kinds"].get(kind, 0) + n
        if has_absent(r["out"]) or any(has_absent(e) for e in r["log"]):
            self.absent_seen.append([vn, self.opn])
        return r

    def call_thunk(self, op):
        """Build thunk for a 'call' op: {"fn": qual|inst.meth, "nargs": n, "kw": [names]}"""

        def thunk(v, env):
            if op.get("attr"):
                return self.lookup(v, op["fn"])  # property access
            target = v.tooled.get(op["fn"]) or self.lookup(v, op["fn"])
            args = [env._fresh() for _ in range(op.get("nargs", 0))]
            kw = {k: env._fresh() for k in op.get("kw", [])}
            r = target(*args, **kw)
            if isinstance(r, types.GeneratorType) and op.get("drain", True):
                # a generator function called as a plain call: drain it -- after a pause in which
                # the scheduler (E2) may let other threads run: nothing of the body has run yet
                if self.between is not None and v.name == "sys":
                    self.between()
                got = []
                for x in r:
                    got.append(x)
                return ["drained", got]
            return r

        return thunk

    # -- generator driving -----------------------------------------------------
    def gen_thunk(self, op):
        kind = op["op"]
        g = op["gen"]

        def thunk(v, env):
            if kind == "gen_new":
                target = v.tooled.get(op["fn"]) or self.lookup(v, op["fn"])
                args = [env._fresh() for _ in range(op.get("nargs", 0))]
                v.gens[g] = target(*args)
                if op.get("as_global"):
                    # the generator object is also a module global of the actors' module: another
                    # actor (pump) advances it from inside its own call
                    setattr(v.mod, op["as_global"], v.gens[g])
                if op.get("cycle"):
                    # a reference cycle through the generator: dropping it later
                    # leaves finalisation to the collector (S3)
                    holder = [v.gens[g]]
                    holder.append(holder)
                    v.cycles[g] = holder
                return None
            it = v.gens.get(g)
            if it is None:
                return "nogen"
            if kind == "gen_next":
                return next(it)
            if kind == "gen_send":
                return it.send(env._fresh())
            if kind == "gen_throw":
                from .env import ProgErr

                if op.get("exc") == "stop":
                    return it.throw(StopIteration(env._fresh()))
                return it.throw(ProgErr("thrown", env._fresh()))
            if kind == "gen_close":
                return it.close()
            if kind == "gen_drop":
                # (finalisation happens in the engine's global collect step,
                # or at the 'gc' operation if the generator sits in a cycle)
                del v.gens[g]
                it = None
                if g in v.cycles:
                    v.limbo.append(v.cycles.pop(g))
                return None
            raise HarnessError(kind)

        return thunk

    def gc_thunk(self, op):
        import gc

        def thunk(v, env):
            n = len(v.limbo)
            v.limbo.clear()
            return n

        return thunk

    # -- lifecycle introspection (C05) ------------------------------------------
    def code_state(self):
        """qual -> dict(original: bool, count, caps) for the sys twin."""
        sysv = self.v["sys"]
        out = {}
        for q, _ in self.funcs:
            f = self.raw_function(sysv, q)
            st = getattr(f, "__ptera_stack__", None)
            # the counters are internals (named by the property's anchors): read them if they
            # are there, do without if a refactoring renamed them
            count = getattr(st, "instrument_count", None)
            caps = getattr(st, "captures", None)
            try:
                caps = None if caps is None else sorted(c for c in caps.values() if c != 0)
            except Exception:
                caps = None
            if st is not None and count is None:
                self.reach("introspection_unavailable:instrument_count")
            out[q] = {"original": f.__code__ is self.orig_code[q], "count": count, "caps": caps or []
                      if caps is not None else None}
        return out

    def handlers_now(self):
        from ptera.overlay import HandlerCollection

        cur = HandlerCollection.current.get()
        if cur is None:
            return []
        pairs = getattr(cur, "handler_pairs", None)
        if pairs is None:
            self.reach("introspection_unavailable:handler_pairs")
            return None
        return list(pairs)
