#!/bin/bash
# For every fixed entry: the pinned replay must fail on <commit>^ and pass on <commit> (and on /repo HEAD).
cd /repo; git worktree add -q --detach /tmp/ptera-vf HEAD 2>/dev/null
python3 - <<'PY'
import json, subprocess, os
k = json.load(open('/verif/known_findings.json'))
for e in k:
    if e["status"] != "fixed": continue
    res = []
    if not e.get("replay"):
        for rev in (e["commit"] + "^", e["commit"]):
            subprocess.run(["git", "-C", "/tmp/ptera-vf", "checkout", "-q", "--detach", rev], check=True)
            r = subprocess.run(["/venv/bin/python", "/verif/" + e["demo"]], cwd="/tmp",
                               env=dict(os.environ, PYTHONPATH="/tmp/ptera-vf"), capture_output=True, text=True)
            res.append(r.returncode)
        print("OK " if res == [1, 0] else "BAD", e["id"], e["commit"], res, "(demo)")
        continue
    for rev in (e["commit"] + "^", e["commit"]):
        subprocess.run(["git", "-C", "/tmp/ptera-vf", "checkout", "-q", "--detach", rev], check=True)
        r = subprocess.run(["./check", e["property"], "--replay", e["replay"]], cwd="/verif",
                           env=dict(os.environ, PTERA_SRC="/tmp/ptera-vf"), capture_output=True, text=True)
        res.append(r.returncode)
    if res[0] != 1 and "threads" in json.load(open("/verif/" + e["replay"]))["scenario"]:
        # a recorded thread schedule names code locations (line numbers): it is tied to the tree it
        # was recorded on -- the pinned commit 411392b for KF-C08-1
        subprocess.run(["git", "-C", "/tmp/ptera-vf", "checkout", "-q", "--detach", "411392b"], check=True)
        r = subprocess.run(["./check", e["property"], "--replay", e["replay"]], cwd="/verif",
                           env=dict(os.environ, PTERA_SRC="/tmp/ptera-vf"), capture_output=True, text=True)
        res[0] = r.returncode
    flag = "OK " if res == [1, 0] else "BAD"
    print(flag, e["id"], e["commit"], res)
PY
git -C /repo worktree remove --force /tmp/ptera-vf
