#!/usr/bin/env python3
"""tools/pin.py <prop> <regex> <KF-id> [--src TREE] [--runs N]

Find, on the tree TREE (default /tmp/ptera-orig = the pinned commit), the first seeded run of <prop>'s
check whose violation class matches <regex>, minimise it, and store it as findings/<KF-id>.json.
Then confirm that the pinned scenario passes on /repo."""
import json, os, re, subprocess, sys

args = sys.argv[1:]
prop, rx, kid = args[:3]
src = "/tmp/ptera-orig"  # (create it first: git -C /repo worktree add --detach /tmp/ptera-orig 411392b; remove it afterwards)
runs = "2000"
if "--src" in args:
    src = args[args.index("--src") + 1]
if "--runs" in args:
    runs = args[args.index("--runs") + 1]
env = dict(os.environ, PTERA_SRC=src)
out = subprocess.run(["./check", prop, "--no-known", "--keep-going", "--no-minimise", "--runs", runs],
                     capture_output=True, text=True, env=env, cwd="/verif").stdout
idx = None
for ln in out.splitlines():
    m = re.match(r"\s+\[\s*\d+\] (.*)  e\.g\. runs \[(\d+)", ln)
    if m and re.search(rx, m.group(1)):
        idx = int(m.group(2))
        print("class:", m.group(1)[:200], "-> run", idx)
        break
if idx is None:
    print("no class matches; classes were:")
    print("\n".join([l[:200] for l in out.splitlines() if "e.g. runs" in l][:15]))
    sys.exit(1)
out = subprocess.run(["./check", prop, "--no-known", "--only-run", str(idx)],
                     capture_output=True, text=True, env=env, cwd="/verif").stdout
m = re.search(r"VIOLATION property=\S+ replay=(\S+)", out)
if not m:
    print(out[-1500:])
    sys.exit(1)
rp = json.load(open(m.group(1)))
print("invariant:", rp["invariant"], "ops:", len(rp["scenario"].get("ops", [])) or len(rp["scenario"].get("threads", [])))
dst = f"/verif/findings/{kid}.json"
json.dump(rp, open(dst, "w"), indent=1)
# must pass on /repo
r = subprocess.run(["./check", prop, "--replay", dst], capture_output=True, text=True, cwd="/verif")
print("on /repo: exit", r.returncode, r.stdout.strip().splitlines()[0][:160] if r.stdout.strip() else "")
print(json.dumps(rp["scenario"])[:700])
