#!/usr/bin/env python3
"""tools/dbg.py <prop> <replay.json>  -- run one recorded scenario in a child and print every violation."""
import importlib, json, os, sys
sys.path.insert(0, os.path.dirname(os.path.dirname(os.path.abspath(__file__))))
from sim import world
world.bootstrap()
from sim import cli, catalogue, harness
prop, path = sys.argv[1:3]
lens = importlib.import_module(f"sim.lenses.{cli.LENSES[prop]}")
cli._LENS, cli._TIER = lens, "quick"
cli.make_scratch()
for pn in lens.PROGRAMS:
    harness.prepare_program(catalogue.get(pn), pn)
rp = json.load(open(path))
if "-v" in sys.argv:
    from sim import engine1
    _step = engine1.Engine.step
    _opc = engine1.Engine.op_code
    def op_code(self, op):
        out = _opc(self, op)
        print("OP", json.dumps({k: v for k, v in op.items() if k in ("op", "id", "fn", "gen", "how")}), "->", json.dumps(out, default=repr)[:300], flush=True)
        return out
    engine1.Engine.op_code = op_code
    def step(self, op):
        out = _step(self, op)
        print("OP", json.dumps({k: v for k, v in op.items() if k in ("op", "id", "fn", "gen", "how")}), "->", json.dumps(out, default=repr)[:300], flush=True)
        return out
    engine1.Engine.step = step
rs = world.run_many(cli._run_task, [{"scenario": rp["scenario"]}], jobs=1, timeout=60)
r = rs[0]
if not r.get("ok"):
    print(r.get("err")); sys.exit(2)
for v in r["res"]["viol"]:
    print(json.dumps(v, default=repr)[:3000])
print("herr:", r["res"].get("herr"))
