#!/usr/bin/env python3
"""tools/dbg.py <prop> <replay.json>  -- run one recorded scenario in a child and print every violation."""
import importlib, json, os, sys
sys.path.insert(0, os.path.dirname(os.path.dirname(os.path.abspath(__file__))))
from sim import world
world.bootstrap()
from sim import cli, catalogue, harness
prop, path = sys.argv[1:3]
lens = importlib.import_module(f"sim.lenses.{cli.LENSES[prop]}")
cli._LENS, cli._TIER = lens, "quick"
cli.make_scratch()
for pn in lens.PROGRAMS:
    harness.prepare_program(catalogue.get(pn), pn)
rp = json.load(open(path))
rs = world.run_many(cli._run_task, [{"scenario": rp["scenario"]}], jobs=1, timeout=60)
r = rs[0]
if not r.get("ok"):
    print(r.get("err")); sys.exit(2)
for v in r["res"]["viol"]:
    print(json.dumps(v, default=repr)[:3000])
print("herr:", r["res"].get("herr"))
