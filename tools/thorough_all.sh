#!/bin/bash
cd "$(dirname "$0")/.."
for p in C01 C02 C03 C04 C05 C06 C07 C08 C09 C12 C13 C14 C16 C17; do
  /usr/bin/time -f "$p wall %es" ./check $p --tier thorough 2>&1 | tail -3 | cut -c1-400
done
