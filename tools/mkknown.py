#!/usr/bin/env python3
"""Regenerate the 'fixed' part of known_findings.json (open entries are kept as they are)."""
import json, os

FIXED = [
 ("KF-C01-1", "C01", "cf1a0c2", "C01.same_outcome", "a function that unpacks a generator / dict / set / custom iterator, or a sequence of the wrong length, into a tuple target behaves differently once instrumented (targets were rewritten to indexing)"),
 ("KF-C01-2", "C01", "cf1a0c2", "C01.instrumentable", "a function with a starred assignment target (a, *r, c = ...) cannot be instrumented: SyntaxError when a probe is activated or tooled() is applied"),
 ("KF-C01-3", "C01", "0150888", "C01.same_envlog", "o[side_effect()] = v evaluates the index twice, and before the value, once o is instrumented"),
 ("KF-C01-4", "C01", "85d6013", "C01.same_outcome", "a function that defines a class in its body fails with PteraNameError / NameError once instrumented"),
 ("KF-C01-5", "C01", "4d5f0fd", "C01.instrumentable", "a function with a nonlocal/global declaration cannot be instrumented: SyntaxError 'name used prior to nonlocal declaration'"),
 ("KF-C01-6", "C01", "f7c1846", "C01.instrumentable", "a function containing a loop with a starred target (for a, *rest in ...) cannot be instrumented: NotImplementedError when a probe is activated or tooled() is applied"),
 ("KF-C01-7", "C01", "7cbc100", "C01.same_outcome", "a function with a local annotation that cannot be evaluated (y: OnlyForTypeCheckers = v) raises once instrumented; Python never evaluates such annotations"),
 ("KF-C01-8", "C01", "bdd0857", "C01.same_outcome", "a bare annotation on an attribute or item (o.n: int) makes any probed call of the function raise KeyError (regression of e824295: the declaration was forced through interact although it declares no variable)"),
 ("KF-C01-9", "C01", "238526d", "C01.same_outcome", "the annotation of an attribute target (o.m: OnlyForTypeCheckers = v) is counted as a use of the names it mentions: PteraNameError under full instrumentation although Python never evaluates it"),
 ("KF-C01-10", "C01", "21219a0", "C01.same_outcome", "the name of an inner 'async def' is taken for an undefined global: PteraNameError at entry under full instrumentation"),
 ("KF-C01-11", "C01", "4a621bd", "C01.same_outcome", "StopIteration thrown into an instrumented generator reaches the generator as RuntimeError (regression of 5958c50: PEP 479 applies to the helper the yields are delegated to)"),
 ("KF-C01-12", "C01", "b9cba87", "C01.same_envlog", "o[lo():hi()] = v evaluates the bounds of the slice twice, and before the value, once o is instrumented (0150888 left slices out)"),
 ("KF-C04-6", "C04", "3b96448", "demo:findings/review/R2/demo_5.py", "an override of a global that the function declares ('global G') but only reads is stored into the module and outlives the call and the probe (regression of 4d5f0fd)"),
 ("KF-C16-6", "C16", "c3d53db", "demo:findings/review/R4/demo_2b.py", "a declared-only variable reached by a generator that is resumed after its probes ended fails with TypeError ('NoneType' is not subscriptable) instead of a name error"),
 ("KF-C02-1", "C02", "f50c678", "C02.activation", "a variable assigned only inside an except block cannot be probed: 'Cannot find a variable named ...'"),
 ("KF-C02-2", "C02", "f35605b", "C02.stream", "'import os.path' binds os but a probe on os receives no event"),
 ("KF-C02-3", "C02", "bc90bec", "C02.stream", "a probe on the target of 'with cm() as w' receives no event (and the target is missing as context)"),
 ("KF-C02-4", "C02", "cfa9e89", "C02.stream", "an assignment expression nested in the right-hand side of an assignment (y = (u := f()) + ...) produces no event"),
 ("KF-C02-5", "C02", "2c06b0b", "C02.stream", "an assignment expression inside a lambda ((lambda: (y := v))()) is reported as a binding of the enclosing function's y"),
 ("KF-C02-6", "C02", "53d2f6f", "C02.stream", "an assignment expression in the index of a subscript target (o[(k := v)] = w) produces no event for k"),
 ("KF-C05-5", "C05", "3c5b147", "C05.module_namespace", "deactivating the last probe on a function leaves a None key in the globals of the function's module"),
 ("KF-C02-7", "C02", "e851bb1", "C02.stream", "an assignment expression in the default value of a lambda or inner def ((lambda a=(k := v): a)) binds the function's own k but is not reported (regression of 2c06b0b)"),
 ("KF-C02-8", "C02", "01bd81a", "C02.stream", "'with A() as a, B() as b': the binding of a is only reported once every item has been entered -- after B(), and not at all if entering B() fails"),
 ("KF-C06-2", "C06", "cfa9e89", "C06.meta", "'r = yield v' produces no #yield / #receive events"),
 ("KF-C07-1", "C07", "d3b8222", "C07.records", "with a total selector f(g(h(c))) and g recursive, each value of c is listed twice in the record of the call of f"),
 ("KF-C05-1", "C05", "56e9529", "C05.no_handlers", "global probes A then B activated, A deactivated first: B stops receiving events and A's handler comes back for good when B is deactivated"),
 ("KF-C05-3", "C05", "1ae940f", "C05.original_code", "a probe whose activation is refused (second selector names a variable that does not exist) leaves the functions of its selectors instrumented although no probe is active"),
 ("KF-C05-4", "C05", "a513fcd", "C05.counters", "a probe whose selector is refused part-way (f > len > x: len is not a Python function; or a function without source code) leaves the functions named before it instrumented for good"),
 ("KF-C05-6", "C05", "131b3dc", "C05.no_handlers", "a probe activated from inside a call of an instrumented function (by the function or by a subscriber) goes deaf when that call returns although it is still active; one deactivated inside such a call comes back"),
 ("KF-C05-2", "C05", "0f26a75", "C05.original_code", "a probe whose pipeline ends in a reduction over no events (min() without error handler) raises on deactivation and stays installed: functions instrumented, handlers and global_probes entry left"),
 ("KF-C17-2", "C17", "0f26a75", "C17.silent_outside", "after a deactivation during which completing a stage raised, the probe's other stages keep receiving events of later calls"),
 ("KF-C06-1", "C06", "3c5a8d8", "C06.meta", "a function that falls off the end of its body produces #enter and #exit but no #value"),
 ("KF-C17-1", "C17", "76adff9", "C17.reduction", "when completing one stage raises (empty reduction without error handler), the stages attached after it are never completed and publish nothing"),
 ("KF-C17-3", "C17", "68ae349", "C17.completed_once", "the interpreter-exit hook stops at the first global probe whose completion raises; the remaining global probes are never completed"),
 ("KF-C04-1", "C04", "654daa2", "C04.substitution", "an Overlay.tweaking / rewriting override on a tooled function is silently dropped while a probe on another variable of that function is active"),
 ("KF-C04-2", "C04", "0292be5", "C04.stream", "a probe or override on an attribute store (f > o.n) never fires unless the whole function is tooled"),
 ("KF-C04-3", "C04", "be94eb2", "C04.substitution", "tooled() / tooled.inplace() applied to a function that was probed earlier does nothing: an Overlay.tweaking override on it is silently never applied"),
 ("KF-C04-4", "C04", "31fe00e", "C04.substitution", "a subscriber of an overridable probe that calls the probed function again while an event is being delivered makes the outer binding receive the value supplied for the inner one (or lose its own)"),
 ("KF-C16-5", "C16", "5910367", "C16.name_error_info", "PteraNameError.info() (annotation, provenance) raises TypeError once the probe that was active when the error was raised has ended, e.g. in a handler outside the with-block"),
 ("KF-C13-1", "C13", "447c057", "C13.receiver", "obj.meth > v also observes calls on a distinct instance that compares equal to obj"),
 ("KF-C13-3", "C13", "447c057", "C13.activation", "obj.meth > v fails with 'unhashable type' when obj defines __eq__ without __hash__"),
 ("KF-C13-4", "C13", "681f302", "C13.receiver", "obj.meth > v on a receiver whose __eq__ raises / yields no truth value (array-like) makes the probed call fail: the receiver predicate was first compared to the captured value with =="),
 ("KF-C14-1", "C14", "755b237", "C14.resolves", "after a probe on a method K.meth, the reference /module/meth of the top-level function meth resolves to the method"),
 ("KF-C14-3", "C14", "1a90fb0", "C14.resolves", "the reference of a function decorated with @tooled resolves to the orphaned original function instead of the tooled copy the name is bound to: no events, no error (regression of 755b237)"),
 ("KF-C14-2", "C14", "cd87ef6", "C14.resolves", "selecting /module/fn while a probe is active on fn fails with 'Reference is ambiguous' (when codefind scans the heap rather than its cache)"),
 ("KF-C16-3", "C16", "e824295", "C16.no_absent", "a declared-only variable (x: int) that no active selector names is bound to the ABSENT marker instead of failing with PteraNameError"),
 ("KF-C16-4", "C16", "f842ad6", "C16.no_absent", "an undefined global used on the taken path, and not in the capture set, evaluates to the ABSENT marker instead of raising NameError"),
 ("KF-C09-1", "C09", "468b424", "C09.driver_handlers", "finishing generators out of order / after the overlay ended leaves or re-installs handler collections in the driver's context"),
 ("KF-C09-2", "C09", "468b424", "C09.no_foreign_events", "while a generator is suspended, a call made by its driver is matched as if made inside the generator"),
 ("KF-C09-4", "C09", "5958c50", "C09.no_foreign_events", "a generator resumed by throw() (its handler catches) calls another function before binding anything: that call is not matched as made under the generator (gen > g > a gets no event), because the generator only takes its handlers back at its next instrumented binding"),
 ("KF-C05-7", "C05", "a89bad3", "C05.exactly_once", "an overlay whose with-block is over receives events again: a generator started while it was active keeps the collection it was started with and puts it back in force, for the calls it makes, each time it is resumed (side effect of 468b424)"),
 ("KF-C09-5", "C09", "a89bad3", "C09.no_foreign_events", "a probe or overlay activated while a generator is suspended hears nothing of the calls the generator makes once it runs again (the generator keeps the collection it was started with; side effect of 468b424)"),
 ("KF-C08-1", "C08", "58916a9", "C08.quiescent", "two threads activating probes on the same function race in _tooler/push/_apply: 'NoneType is not iterable' / not properly tooled / counters left over"),
 ("KF-C17-4", "C17", "1c11048", "demo:findings/review/R4/demo_1.py", "a probe whose deactivation fails before anything is undone (attempted from a copy of the context it was activated in) is marked as torn down all the same: no later deactivate(), nor the exit hook, ever uninstalls it (regression of 0f26a75)"),
 ("KF-C14-4", "C14", "741173b", "C14.resolves", "the reference of a method decorated with @tooled is that of a top-level function of the same name (the tooled copy's qualified name is the bare name): it selects another function, or none"),
 ("KF-C17-5", "C17", "6a8a761", "C17.stream", "a probe deactivated before it was ever activated completes its stream there and then (count() publishes 0): activated afterwards it delivers nothing"),
 ("KF-C04-7", "C04", "7cda4a2", "demo:findings/review/extra/demo_rebase_order.py", "for the calls a resumed generator makes, an overlay that was active when the generator started and is entered again after another one does not take precedence although it is the most recently activated (order of the pairs in proceed._rebase; side effect of a89bad3)"),
 ("KF-C01-13", "C01", "c7da0f8", "demo:findings/review/R5/demo_3.py", "a function that declares a global it only reads, and that a callee creates during the call, fails with UnboundLocalError once instrumented; its own writes through forms the collector does not see (a match capture) stay in a local; closures created during the call keep the value the global had at entry (all three regressions of 3b96448, which dropped the declaration)"),
 ("KF-C09-6", "C09", "ee71e64", "C09.no_foreign_events", "a generator that is advanced from inside the calls of another function keeps the pairs of every such call: 'pump > g > a' fires once per earlier call of pump for each binding, and still fires when the generator is advanced with no pump running (regression of a89bad3, which kept every pair whose probe is still active)"),
 ("KF-C08-5", "C08", "7d76d0b", "demo:findings/review/R6/demo_5.py", "a reference resolved while another thread calls tooled() on the same function fails with 'Set changed size during iteration' (the set of tooled copies, 1a90fb0, was filled without the tooling lock)"),
 ("KF-C14-5", "C14", "8f2b468", "demo:findings/review/R6/demo_4.py", "once a function that the module path does not lead to (defined inside another function, or hidden behind a decorator's wrapper) has a tooled copy, its reference is refused as ambiguous for good (regression of 1a90fb0)"),
 ("KF-C09-7", "C09", "e0fd03f", "C09.no_foreign_events", "a selector through a generator (pump > gen > g > a) delivers the first step only when the function that advances the generator is called afresh for each step: the generator's own pairs were kept only if the very pair they derive from was still there (regression of ee71e64)"),
 ("KF-C05-8", "C05", "23ad29c", "C05.exactly_once", "an overlay that is over hears again from the calls of a resumed generator when a probe with the same selector text is active: interned selectors were compared without asking whose accumulator it is (regression of e0fd03f, found by the C05 check before the commit was an hour old)"),
 ("KF-C01-14", "C01", "911aeb0", "demo:findings/review/R7/demo_3b.py", "a `global` declaration inside an inner function or class body kept the name out of the outer function's entry fetch: f > H accepted but silent, an override ignored (regression of c7da0f8)"),
 ("KF-C09-8", "C09", "b375fc4", "C09.no_foreign_events", "a generator entered under one call of a function on its path and resumed by a later call of it reports the values of the call that is over (pump(q) > gen > g > a carries q of the first call of pump), applies its conditions and overrides, and goes on filling its record (regression of e0fd03f, which kept the old pairs)"),
 ("KF-C01-15", "C01", "5ca80a5", "demo:findings/review/R8/demo_4.py", "a class defined in the function whose body declares a global and assigns it: reading that global afterwards in the function fails with UnboundLocalError once instrumented (regression of 911aeb0, which looked at the function's own statements only)"),
 ("KF-C03-9", "C03", "0efd7b7", "demo:findings/review/extra/demo_fit_cache.py", "re-entering a resumed generator for the call that resumes it reads the selector fit cache without filling it: KeyError when the cache does not hold the entry (found by the behaviour-preserving canary that switches the cache off; the script empties the cache by hand)"),
 ("KF-C08-3", "C08", "a93c42f", "C08.no_exception", "a thread that selects a function through its reference string while another thread activates or deactivates a probe on it is refused: 'Reference ... cannot be resolved' / 'is ambiguous' (the lookup is not covered by the tooling lock)"),
 ("KF-C08-4", "C08", "184cfaa", "demo:findings/review/R3/demo_6b.py", "tooled.inplace runs outside the tooling lock: a probe activated by another thread in between leaves the function refused ('not properly tooled') for good (regression of be94eb2 + 58916a9)"),
 ("KF-C08-2", "C08", "13c39f3", "C08.thread_result", "a thread calling f by name while another thread's probe activation compiles f's variant runs the variant function object (its events are lost, or its self-reference global is not installed yet: NameError '_ptera__N')"),
]

here = os.path.dirname(os.path.dirname(os.path.abspath(__file__)))
p = os.path.join(here, "known_findings.json")
cur = json.load(open(p))
opened = [k for k in cur if k["status"] == "open"]
out = list(opened)
for kid, prop, commit, inv, what in FIXED:
    if inv.startswith("demo:"):
        # shown by a stand-alone script against the real code, not by a scenario of the check
        assert os.path.exists(os.path.join(here, inv[5:])), kid
        out.append({"id": kid, "property": prop, "status": "fixed", "commit": commit, "what": what,
                    "replay": None, "demo": inv[5:], "invariant": None,
                    "record": f"fixed: property={prop} {commit} {what}"})
        continue
    assert os.path.exists(os.path.join(here, "findings", kid + ".json")), kid
    out.append({"id": kid, "property": prop, "status": "fixed", "commit": commit, "what": what,
                "replay": f"findings/{kid}.json", "invariant": inv,
                "record": f"fixed: property={prop} {commit} {what}"})
json.dump(out, open(p, "w"), indent=1)
print(len(opened), "open,", len(FIXED), "fixed")
