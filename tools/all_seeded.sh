#!/bin/bash
# Apply every seeded change in turn and report whether the owning check (quick tier) catches it.
cd /verif
for d in seeded/C*/; do
  id=$(basename $d)
  out=$(SKIP_TESTS=1 tools/seeded.sh $id 2>&1)
  if echo "$out" | grep -q "PATCH DOES NOT APPLY"; then echo "$id not-applicable (patch does not apply to the repaired tree)"; continue; fi
  demo=$(echo "$out" | grep "demo exit" | awk '{print $3}')
  chk=$(echo "$out" | grep "^check .* exit" | awk '{print $4}' | tr '\n' ' ')
  runs=$(echo "$out" | grep -o "quick: [0-9]* runs" | head -1)
  echo "$id demo_exit=$demo check_exit=$chk ($runs)"
done
