#!/usr/bin/env python3
"""Regenerate /verif/MANIFEST.json from the table below (keeps it valid by construction)."""
import json
import os

HERE = os.path.dirname(os.path.dirname(os.path.abspath(__file__)))

NA = {
    "C10": "static agreement of ptera's name collector with Python scoping: the verdict is a pure function of the function's source text; no schedule, clock, fault or history can change it, so deterministic simulation has nothing to decide (DESIGN.md 2).",
    "C11": "which bindings carry a tag is static; the iff is over tag placements and selectors, a pure function of program text and selector (DESIGN.md 2).",
    "C15": "parser + interning is a pure function of the selector string (single-threaded, as the property is stated); no schedule, fault or history dimension (DESIGN.md 2).",
    "C18": "totality of lexer + parser + evaluator over strings is a pure-input property; grammar-based fuzzing is a different technique family (DESIGN.md 2).",
}

PARTIAL = "the quantifier contains 'programs': decided over all tapes, fault plans, driver schedules and probe histories the seeded search reaches on a stated program family (fixed catalogue + seeded compositions); the program family itself is sampled workload, not decided"

CLAIMS = {
    "C01": ("E1", "twin-module differential (untouched twin vs instrumented twin) under seeded environment tapes, k-th-interaction fault plans, generator driving schedules (next/send/throw/close/drop, probes leaving while the generator exists) and probe push/pop histories", PARTIAL),
    "C02": ("E1", "seeded history simulation; probe stream compared with the traced twin's binding history (M-py) through the selector model M-sel, with faults putting bindings on exceptional paths, injected subscriber failures (modelled exactly), probes with identical selectors ending in any order, probes coming and going while a generator is suspended / thrown into", PARTIAL),
    "C03": ("E1", "scheduler-produced call trees (tape-driven dispatcher actors: recursion, re-entry, raising calls, a caller that survives failures below it); events compared with M-sel embeddings over the traced twin's live stacks; injected subscriber failures of immediate and total probes modelled exactly", "decided over the call trees, tapes and fault plans the seeded search reaches on the dispatcher family A-D/E/M/S and seeded chain / sibling-tree selectors up to depth 3"),
    "C04": ("E1", "seeded activation orders of overriding and observing probes / overlays (incl. overlays derived from one another, refused activations, tooling after an earlier probe, failing subscribers of overridable probes), ending in any order; call compared with the traced twin whose bindings are substituted by the model's bind hook", PARTIAL),
    "C05": ("E1", "seeded lifecycle histories (non-LIFO global probes, blocks left by exception, failing completion, failing subscribers of immediate / total probes, activations refused for a bad variable or part-way through a selector) with M-life invariants after every operation", "decided over the operation histories the seeded search reaches (bounded length, 2-4 probes over the dispatcher family)"),
    "C06": ("E1", "seeded control-flow tapes, faults at every environment interaction (incl. exceptions swallowed by context managers), injected subscriber failures on any event of the stream (modelled exactly), generator next/send/throw/close/drop schedules and collector-driven finalisation; merged meta-event stream compared with the traced twin", "decided over the paths, driving sequences and collector schedules the seeded search reaches on the catalogue functions"),
    "C07": ("E1", "scheduler-produced call trees incl. recursive and raising outermost calls, refused activations, a failing subscriber while a nested call is wound up under a surviving caller; total records compared with M-sel total mode", PARTIAL),
    "C08": ("E2", "thread-schedule simulation: real threads under a baton scheduler, pre-emption at line/opcode boundaries of the tooling and call-entry code (random, PCT, uniform step, targeted), multi-round thread scripts, environment faults in calls, activations refused in a thread, per-thread sequential model", "decided over the interleavings the seeded schedulers reach (pre-emption bound 3 quick / 5 thorough, 2-3 threads); a switch inside a C call is out of reach"),
    "C09": ("E1", "seeded histories of overlay enter/leave, generator create/next/throw/close/drop, collector runs and driver calls, at top level and inside an instrumented driver, a failing subscriber of a total probe while a generator is wound up; events vs M-sel with suspended activations off the stack, handler collection vs M-life", "decided over the histories the seeded search reaches (1-2 generators at top level, 2 inside the driver actor)"),
    "C12": ("E1", "seeded loop tapes over a small integer box; events and overrides compared with the unconditioned model stream filtered by arithmetic reference predicates", PARTIAL + "; the 'for all integers in the box' half is sampled, not enumerated; throttle is not modelled"),
    "C13": ("E1", "seeded call sequences over a population of receivers (plain, subclass, value-equal, unhashable, decorated, nested class, property, a method calling a plain helper) with class-wide and object-bound probes activated in seeded order, object-bound call paths next to a failing total probe", "decided over the populations, probe histories and call sequences the seeded search reaches"),
    "C14": ("E1", "seeded probe histories by name / by reference (incl. activations refused because a function cannot be instrumented) with the codefind clock (fast = heap scan, slow = cache) and the collector as scheduled operations; every function's reference re-resolved after every operation", "decided over the histories the seeded search reaches on the placement module (top-level, method, nested class, closure + its factory, decorated, namesakes)"),
    "C16": ("E1", "seeded instrumentation configurations (all / some / none of the variables; supplied always, conditionally or not; by overlays or overridable probes, with a failing subscriber) x paths x faults, on catalogue actors and generated programs with declarations dropped in; call compared with the traced twin with the model's declaration hook; ABSENT scan of every result, log entry and event; name errors asked again for what they expose after the probes are gone", PARTIAL),
    "C17": ("E1", "seeded pipeline histories (stages before / after activation, reductions, failing subscriber, failing / interrupted completion, refused and repeated activation attempts, interpreter-exit hook) with per-stage completion and reduction oracles", "decided over the operation histories the seeded search reaches"),
}

PENDING = {}


def main():
    checks = []
    for pid, (engine, technique, note) in sorted(CLAIMS.items()):
        checks.append(
            {
                "property_id": pid,
                "quick_cmd": f"./check {pid} --tier quick",
                "thorough_cmd": f"./check {pid} --tier thorough",
                "evidence_file": f"/verif/evidence/{pid}.json",
                "replay_cmd_template": f"./check {pid} --replay {{path}}",
                "engine": engine,
                "level_claimed": {
                    "category": "exploration",
                    "text": "deterministic simulation with fault injection: seeded search over operation histories, environment tapes, injected failures"
                    + (" and thread schedules" if engine == "E2" else "")
                    + "; every run checks reference models after every operation; a clean batch is evidence, not proof",
                    "design_ref": f"DESIGN.md section 4 ({pid})",
                },
                "level_note": note
                + "; trusted base: CPython, the harness models (traced twin M-py, M-sel, M-life), giving/reactivex/codefind run as real code but are not under verification",
                "technique": "deterministic simulation with fault injection: " + technique,
            }
        )
    na = [{"property_id": k, "reason": v} for k, v in sorted(NA.items())]
    for k, v in sorted(PENDING.items()):
        na.append({"property_id": k, "reason": v})
    man = {
        "version": 1,
        "setup_cmd": "./setup.sh",
        "hooks": {
            "guard": "PTERA_VERIF",
            "enable": "no source hooks are needed: every seam (codefind.registry.time, gc schedule, ptera.probe.global_probes ordering, sys.settrace pre-emption) is installed from outside by /verif/sim/world.py; checks set PTERA_VERIF=1 for their own processes only",
            "baseline_off_cmd": "cd /repo && /venv/bin/python -m pytest -q -p no:cacheprovider",
            "source_commits": [],
            "add_only": True,
        },
        "engines": [
            {
                "name": "E1",
                "path": "sim/engine1.py",
                "serves_properties": sorted(k for k, v in CLAIMS.items() if v[0] == "E1"),
                "kind_free_text": "single-caller history simulator: seeded operation lists interpreted against real ptera and against reference models after every operation; fork-per-run from a pre-imported parent",
            },
            {
                "name": "E2",
                "path": "sim/engine2.py",
                "serves_properties": sorted(k for k, v in CLAIMS.items() if v[0] == "E2"),
                "kind_free_text": "thread-schedule simulator: real threads, one baton, pre-emption points from sys.settrace line/opcode events, seeded scheduler (random, PCT, uniform step, targeted), simulated locks",
            },
        ],
        "checks": checks,
        "not_applicable": na,
        "notes": "One command: ./check <Cxx> --tier quick|thorough [--replay FILE]; exit 0 held / 1 VIOLATION / 2 HARNESS-ERROR. Known findings: known_findings.json (+ findings/*.json pinned replays). See DESIGN.md.",
    }
    with open(os.path.join(HERE, "MANIFEST.json"), "w") as f:
        json.dump(man, f, indent=1)
    print("wrote MANIFEST.json:", len(checks), "checks,", len(na), "not applicable")


if __name__ == "__main__":
    main()
