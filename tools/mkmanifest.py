#!/usr/bin/env python3
"""Regenerate /verif/MANIFEST.json from the table below (keeps it valid by construction)."""
import json
import os

HERE = os.path.dirname(os.path.dirname(os.path.abspath(__file__)))

NA = {
    "C10": "static agreement of ptera's name collector with Python scoping: the verdict is a pure function of the function's source text; no schedule, clock, fault or history can change it, so deterministic simulation has nothing to decide (DESIGN.md 2).",
    "C11": "which bindings carry a tag is static; the iff is over tag placements and selectors, a pure function of program text and selector (DESIGN.md 2).",
    "C15": "parser + interning is a pure function of the selector string (single-threaded, as the property is stated); no schedule, fault or history dimension (DESIGN.md 2).",
    "C18": "totality of lexer + parser + evaluator over strings is a pure-input property; grammar-based fuzzing is a different technique family (DESIGN.md 2).",
}

PARTIAL = "the quantifier contains 'programs': decided over all tapes, fault plans, driver schedules and probe histories the seeded search reaches on a stated program family (fixed catalogue + seeded compositions); the program family itself is sampled workload, not decided"

CLAIMS = {
    "C01": ("E1", "twin-module differential under seeded tapes and k-th-interaction fault plans", PARTIAL),
    "C02": ("E1", "seeded history simulation; stream compared with the traced twin's binding history (M-py) through M-sel", PARTIAL),
}

PENDING = {
    k: "check not built yet in this session (claimed in DESIGN.md; will move to checks)"
    for k in ["C03", "C04", "C05", "C06", "C07", "C08", "C09", "C12", "C13", "C14", "C16", "C17"]
}


def main():
    checks = []
    for pid, (engine, technique, note) in sorted(CLAIMS.items()):
        checks.append(
            {
                "property_id": pid,
                "quick_cmd": f"./check {pid} --tier quick",
                "thorough_cmd": f"./check {pid} --tier thorough",
                "evidence_file": f"/verif/evidence/{pid}.json",
                "replay_cmd_template": f"./check {pid} --replay {{path}}",
                "engine": engine,
                "level_claimed": {
                    "category": "exploration",
                    "text": "deterministic simulation with fault injection: seeded search over operation histories, environment tapes, injected failures"
                    + (" and thread schedules" if engine == "E2" else "")
                    + "; every run checks reference models after every operation; a clean batch is evidence, not proof",
                    "design_ref": f"DESIGN.md section 4 ({pid})",
                },
                "level_note": note
                + "; trusted base: CPython, the harness models (traced twin M-py, M-sel, M-life), giving/reactivex/codefind run as real code but are not under verification",
                "technique": "deterministic simulation with fault injection: " + technique,
            }
        )
    na = [{"property_id": k, "reason": v} for k, v in sorted(NA.items())]
    for k, v in sorted(PENDING.items()):
        na.append({"property_id": k, "reason": v})
    man = {
        "version": 1,
        "setup_cmd": "./setup.sh",
        "hooks": {
            "guard": "PTERA_VERIF",
            "enable": "no source hooks are needed: every seam (codefind.registry.time, gc schedule, ptera.probe.global_probes ordering, sys.settrace pre-emption) is installed from outside by /verif/sim/world.py; checks set PTERA_VERIF=1 for their own processes only",
            "baseline_off_cmd": "cd /repo && /venv/bin/python -m pytest -q -p no:cacheprovider",
            "source_commits": [],
            "add_only": True,
        },
        "engines": [
            {
                "name": "E1",
                "path": "sim/engine1.py",
                "serves_properties": sorted(k for k, v in CLAIMS.items() if v[0] == "E1"),
                "kind_free_text": "single-caller history simulator: seeded operation lists interpreted against real ptera and against reference models after every operation; fork-per-run from a pre-imported parent",
            },
            {
                "name": "E2",
                "path": "sim/engine2.py",
                "serves_properties": sorted(k for k, v in CLAIMS.items() if v[0] == "E2"),
                "kind_free_text": "thread-schedule simulator: real threads, one baton, pre-emption points from sys.settrace line/opcode events, seeded scheduler (random, PCT, targeted)",
            },
        ],
        "checks": checks,
        "not_applicable": na,
        "notes": "One command: ./check <Cxx> --tier quick|thorough [--replay FILE]; exit 0 held / 1 VIOLATION / 2 HARNESS-ERROR. Known findings: known_findings.json (+ findings/*.json pinned replays). See DESIGN.md.",
    }
    with open(os.path.join(HERE, "MANIFEST.json"), "w") as f:
        json.dump(man, f, indent=1)
    print("wrote MANIFEST.json:", len(checks), "checks,", len(na), "not applicable")


if __name__ == "__main__":
    main()
