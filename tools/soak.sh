#!/bin/bash
# usage: tools/soak.sh <first seed> <last seed> [tier]   -- run every check under other seeds; report anything not exit 0
cd "$(dirname "$0")/.."
tier=${3:-quick}
mkdir -p /tmp/soak-out
for seed in $(seq $1 $2); do
  for p in C01 C02 C03 C04 C05 C06 C07 C08 C09 C12 C13 C14 C16 C17; do
    out=$(VERIF_SEED=$seed ./check $p --tier $tier 2>&1); rc=$?
    if [ $rc -ne 0 ]; then
      echo "SOAK seed=$seed $p exit=$rc"; echo "$out" | grep -E "VIOLATION|HARNESS|invariant" | cut -c1-600
      for f in $(echo "$out" | grep -o "replay=[^ ]*" | cut -d= -f2); do cp "$f" /tmp/soak-out/ 2>/dev/null; done
    fi
  done
  echo "seed $seed done"
done
