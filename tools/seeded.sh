#!/bin/bash
# usage: tools/seeded.sh <seeded-id> [check args...]
# Apply a seeded change to a scratch copy of /repo's HEAD (under /tmp, removed afterwards; or to /repo
# itself with APPLY_IN_REPO=1, undone afterwards), run the pinned tests, the author's demo and the owning
# check(s) (PROPS="C03 C07" to override) against it.
id=$1; shift
d=/verif/seeded/$id
prop=$(python3 -c "import json;print(json.load(open('$d/meta.json'))['property'])")
if [ -n "$APPLY_IN_REPO" ]; then
  src=/repo
  cd /repo || exit 9
  if ! git diff --quiet; then echo "REPO DIRTY"; exit 9; fi
  if ! git apply "$d/patch.diff"; then echo "PATCH DOES NOT APPLY"; exit 9; fi
  trap 'git -C /repo checkout -- . ' EXIT
else
  src=$(mktemp -d /tmp/ptera-seeded-XXXXXX)
  trap 'rm -rf "$src"' EXIT
  git -C /repo archive HEAD | tar -x -C "$src"
  cd "$src" && git init -q . 2>/dev/null
  if ! git apply "$d/patch.diff"; then echo "PATCH DOES NOT APPLY"; exit 9; fi
fi
if [ -z "$SKIP_TESTS" ]; then
  t=$(cd "$src" && PYTHONPATH="$src" /venv/bin/python -m pytest -q -p no:cacheprovider -x 2>&1 | tail -1); echo "tests: $t"
fi
(cd /tmp && PYTHONPATH="$src" timeout 120 /venv/bin/python $d/demo.py 2>&1 | tail -2; echo "demo exit: ${PIPESTATUS[0]}")
cd /verif
for p in ${PROPS:-$prop}; do
  PTERA_SRC="$src" timeout 1200 ./check $p "$@" 2>&1 | tail -4
  echo "check $p exit: ${PIPESTATUS[0]}"
done
