#!/bin/bash
# usage: tools/seeded.sh <seeded-id> [check args...]   -- apply a seeded change to /repo, run demo + checks, undo
id=$1; shift
d=/verif/seeded/$id
prop=$(python3 -c "import json;print(json.load(open('$d/meta.json'))['property'])")
cd /repo || exit 9
if ! git diff --quiet; then echo "REPO DIRTY"; exit 9; fi
if ! git apply "$d/patch.diff"; then echo "PATCH DOES NOT APPLY"; exit 9; fi
trap 'git -C /repo checkout -- . ' EXIT
if [ -z "$SKIP_TESTS" ]; then
  t=$(/venv/bin/python -m pytest -q -p no:cacheprovider -x 2>&1 | tail -1); echo "tests: $t"
fi
(cd /tmp && PYTHONPATH=/repo timeout 120 /venv/bin/python $d/demo.py 2>&1 | tail -2; echo "demo exit: ${PIPESTATUS[0]}")
cd /verif
for p in ${PROPS:-$prop}; do
  timeout 1200 ./check $p "$@" 2>&1 | tail -4
  echo "check $p exit: ${PIPESTATUS[0]}"
done
