#!/bin/bash
# usage: tools/neutral.sh <neutral-id>  -- behaviour-preserving refactoring: every check must stay at exit 0
id=$1
d=/verif/seeded/$id
src=$(mktemp -d /tmp/ptera-neutral-XXXXXX)
trap 'rm -rf "$src"' EXIT
git -C /repo archive HEAD | tar -x -C "$src"
cd "$src" && git init -q . 2>/dev/null
if ! git apply "$d/patch.diff"; then echo "PATCH DOES NOT APPLY"; exit 9; fi
t=$(cd "$src" && PYTHONPATH="$src" /venv/bin/python -m pytest -q -p no:cacheprovider 2>&1 | tail -1); echo "tests: $t"
cd /verif
for p in C01 C02 C03 C04 C05 C06 C07 C08 C09 C12 C13 C14 C16 C17; do
  out=$(PTERA_SRC="$src" timeout 1200 ./check $p --tier quick 2>&1); rc=$?
  echo -n "$p=$rc "
  if [ $rc -ne 0 ]; then echo; echo "$out" | grep -E "VIOLATION|HARNESS|invariant" | cut -c1-700; fi
done
echo
