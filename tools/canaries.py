#!/usr/bin/env python3
"""tools/canaries.py [name ...]  -- sensitivity self-test with one-place textual mutants (DESIGN.md 7, App. B).

Each canary is applied to a scratch copy of /repo (under /tmp, removed afterwards); the pinned test
suite is run on the copy (it must stay green, otherwise the canary is not interesting) and then the
owning check with PTERA_SRC pointing at the copy.  'caught' canaries must make the check exit 1,
'silent' ones (behaviour-preserving for everything the statements fix) must leave it at exit 0.
"""
import json
import os
import shutil
import subprocess
import sys
import tempfile

CANARIES = [
    # name, file, old, new, property, expectation
    ("snapshot-alias", "ptera/interpret.py",
     "        cap = Capture(self.element)\n        cap.names = list(self.names)\n        cap.values = list(self.values)\n        return cap\n",
     "        return self\n", "C02", "caught"),
    ("walrus-no-visit", "ptera/transform.py",
     "            None,\n            self.visit(node.value),\n            orig=node,\n            expression=True,",
     "            None,\n            node.value,\n            orig=node,\n            expression=True,", "C02", "caught"),
    ("for-orelse", "ptera/transform.py",
     "                orelse=self.visit_body(node.orelse),", "                orelse=node.orelse,", "C02", "caught"),
    ("fit-cache-key", "ptera/overlay.py",
     "            cachekey = (fn, selector)", "            cachekey = (fn.__name__, selector)", "C13", "caught"),
    ("first-wins", "ptera/interpret.py",
     "                if tmp is not ABSENT:\n                    rval = tmp",
     "                if tmp is not ABSENT and rval is ABSENT:\n                    rval = tmp", "C04", "caught"),
    ("plus-order", "ptera/overlay.py",
     "        return type(self)(self.handler_pairs + handler_pairs)",
     "        return type(self)(handler_pairs + self.handler_pairs)", "C04", "caught"),
    # (was "stale-override": the slot not cleared before an emission; fix 31fe00e restores the
    # enclosing delivery's value after every delivery, which makes that slip harmless -- the canary
    # now undoes the restoring instead: the value of a nested delivery leaks into the outer one)
    ("no-restore-enclosing", "ptera/probe.py",
     "        finally:\n            self._value = enclosing\n",
     "        finally:\n            pass\n", "C04", "caught"),
    ("no-global-remove", "ptera/probe.py",
     "        global_probes.remove(self)\n", "        pass\n", "C05", "caught"),
    ("exception-only", "ptera/transform.py",
     '                type=ast.Name(id="BaseException", ctx=ast.Load()),',
     '                type=ast.Name(id="Exception", ctx=ast.Load()),', "C06", "caught"),
    ("no-cache-update", "ptera/transform.py",
     "            code_registry.update_cache_entry(fn, fn.__code__, code)", "            pass", "C14", "caught"),
    ("inplace-no-discard", "ptera/overlay.py",
     "    new_fn.__ptera_discard__ = True", "    pass", "C14", "caught"),
    ("variant-no-discard", "ptera/transform.py",
     "        transformed.__ptera_discard__ = True\n", "", "C14", "caught"),
    ("no-tooling-lock", "ptera/overlay.py",
     "    with _tooling_lock:\n        if hasattr(fn, \"__ptera_stack__\"):\n            st = fn.__ptera_stack__\n        else:",
     "    if True:\n        if hasattr(fn, \"__ptera_stack__\"):\n            st = fn.__ptera_stack__\n        else:", "C08", "caught"),
    ("no-suspend", "ptera/overlay.py",
     "        if not self.suspended:\n            self.suspended = True\n            self._give_back()",
     "        pass", "C09", "caught"),
    ("decl-not-forced", "ptera/transform.py",
     "force=value is None)", "force=False)", "C16", "caught"),
    ("observers-stop-at-first-error", "ptera/probe.py",
     "                except Exception as e:\n                    errors.append(e)\n            self._observers.clear()",
     "                except Exception as e:\n                    errors.append(e)\n                    break\n            self._observers.clear()",
     "C17", "caught"),
    ("total-no-dedupe", "ptera/overlay.py",
     "            if key not in seen:\n                seen.add(key)\n                next_selectors.append((selector, acc))",
     "            next_selectors.append((selector, acc))", "C07", "caught"),
    ("embedding-collapse", "ptera/overlay.py",
     "                if selector.focus or is_template:", "                if is_template:", "C03", "caught"),
    # ---- behaviour-preserving for everything the statements fix: the checks must stay silent
    ("neutral-exit-order", "ptera/probe.py",
     "        global_probes.remove(self)\n        self._uninstall_tooling()",
     "        self._uninstall_tooling()\n        global_probes.remove(self)",
     "C05", "silent"),
    ("neutral-enter-order", "ptera/probe.py",
     "        self._install_tooling()\n        self._activated = True\n        global_probes.add(self)\n        self._ol.__enter__()",
     "        self._activated = True\n        self._install_tooling()\n        self._ol.__enter__()\n        global_probes.add(self)",
     "C05", "silent"),
    ("neutral-externals-order", "ptera/transform.py",
     "        for external in sorted(self.external):", "        for external in sorted(self.external, reverse=True):",
     "C01 C02 C06 C16", "silent"),
    ("neutral-gensym-prefix", "ptera/transform.py",
     'return f"_ptera__{next(_IDX)}"', 'return f"_ptera_g{next(_IDX)}"', "C01 C08 C14", "silent"),
    ("neutral-free-order", "ptera/transform.py",
     "        for fv in sorted(self.free):", "        for fv in sorted(self.free, reverse=True):", "C01 C04", "silent"),
    ("neutral-fit-cache-off", "ptera/overlay.py",
     "                _selector_fit_cache[cachekey] = capmap", "                pass", "C03 C07 C13", "silent"),
    ("neutral-lock-plain-name", "ptera/overlay.py",
     "_tooling_lock = threading.RLock()", "_tooling_lock = _the_lock = threading.RLock()", "C08", "silent"),
    # (first classed as behaviour-preserving; seeded change C05e showed it is not: a subscriber of a
    # total probe that fails while the call is wound up then leaves the inner collection installed)
    ("interactor-exit-first", "ptera/overlay.py",
     "        if not self.suspended:\n            self._give_back()\n        self.interactor.exit()",
     "        self.interactor.exit()\n        if not self.suspended:\n            self._give_back()",
     "C05", "caught"),
]


def main():
    want = set(sys.argv[1:])
    results = []
    for name, rel, old, new, prop, expect in CANARIES:
        if want and name not in want:
            continue
        d = tempfile.mkdtemp(prefix="ptera-canary-")
        try:
            subprocess.run(["git", "-C", "/repo", "archive", "--format=tar", "HEAD", "-o", d + "/src.tar"], check=True)
            subprocess.run(["tar", "-xf", d + "/src.tar", "-C", d], check=True)
            p = os.path.join(d, rel)
            s = open(p).read()
            if s.count(old) != 1:
                results.append((name, prop, expect, "NOT-APPLICABLE (pattern count %d)" % s.count(old)))
                print(results[-1])
                continue
            open(p, "w").write(s.replace(old, new))
            t = subprocess.run(["/venv/bin/python", "-m", "pytest", "-q", "-x", "-p", "no:cacheprovider"], cwd=d,
                               capture_output=True, text=True, env=dict(os.environ, PYTHONPATH=d))
            tests = t.stdout.strip().splitlines()[-1] if t.stdout.strip() else "?"
            env = dict(os.environ, PTERA_SRC=d)
            verdict, line = "silent", []
            for pr in prop.split():
                r = subprocess.run(["./check", pr, "--tier", "quick"], cwd="/verif", capture_output=True, text=True, env=env)
                line = [ln for ln in r.stdout.splitlines() if ln.startswith(pr + " ")]
                if r.returncode == 1:
                    verdict = "caught"
                    break
                if r.returncode != 0:
                    verdict = "HARNESS-ERROR"
                    break
            ok = "OK " if verdict == expect else "BAD"
            results.append((name, prop, expect, verdict, tests, line[-1][:90] if line else ""))
            print(ok, name, prop, "expected", expect, "->", verdict, "| tests:", tests[:40], "|", line[-1][:70] if line else "")
        finally:
            shutil.rmtree(d, ignore_errors=True)
    out = os.path.join("/verif", "evidence", "canaries.json")
    if not want:
        json.dump([list(r) for r in results], open(out, "w"), indent=1)


if __name__ == "__main__":
    main()
